import json,subprocess,sys,re,os,collections
cdir=sys.argv[1]
env=dict(os.environ,CARGO_TARGET_DIR='/verif/work/target')
p=subprocess.run(['cargo','build','--offline','--message-format=json'],cwd=cdir,env=env,stdout=subprocess.PIPE,stderr=subprocess.PIPE,text=True)
seen=collections.OrderedDict()
for line in p.stdout.splitlines():
    if not line.startswith('{'): continue
    m=json.loads(line)
    if m.get('reason')!='compiler-message' or m['message'].get('level')!='error': continue
    msg=m['message']
    for sp in msg.get('spans',[]):
        if not sp.get('is_primary'): continue
        cur=sp
        while cur.get('expansion') and cur['expansion'].get('span'): cur=cur['expansion']['span']
        f=cur['file_name']; ln=cur['line_start']
        if 'src/bin' not in f: continue
        src=open(os.path.join(cdir,f)).read().splitlines()[ln-1]
        fn=re.search(r'pub fn ([mr]_\d+)',src)
        key=(msg['message'][:90], fn.group(1)[0] if fn else '?')
        seen.setdefault(key,[]).append((fn.group(1) if fn else '?', src[:int(sys.argv[2]) if len(sys.argv)>2 else 400], sp.get('label')))
        break
for k,v in seen.items():
    print(len(v),k)
    print('    ',v[0][0],v[0][2]); print('    ',v[0][1])
