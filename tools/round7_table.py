#!/usr/bin/env python3
"""Builds the round-7 table of DESIGN.md section 9.10 from the selftest logs (usage: round6_table.py <log>...)."""
import re
import sys

WHAT = {
    "C01-m": ("the `let __handler = <operand>;` of a `->` is built with the operand's span, its use keeps the call-site span (hygiene)", "the operand's first token comes from the caller of a `macro_rules!` wrapper as a raw token"),
    "C02-m": ("the `>>>` / `<<<` balance of a deferred action folds `(Deferred, Wrap)` into 0: `~op >>> .. <<<` rejected", "a wrapper opened by a `~` action and closed explicitly in the same step"),
    "C03-m": ("`join_spawn!` / `spawn!`: an unnamed branch in its last step is joined only when the final tuple is built", "unequal depths, the shorter branch unnamed and slow"),
    "C04-m": ("generated reads of a named branch get `Span::call_site()` (hygiene)", "the name is written by the caller of a forwarding `macro_rules!` wrapper"),
    "C05-m": ("the between-step success check of a branch whose step ends in `-> Some` / `-> Ok` is emitted as `true`, ignoring a wrapper still open there", "`=> >>> -> f -> Ok` left open at a step end, the wrapped value failing"),
    "C06-m": ("one active branch whose remaining steps are only `|>`: the early return is dropped (\"a failed value passes through map\")", "the lone branch fails; a later `~|>` operand is a call / index / `if` expression"),
    "C07-m": ("`__spawn_tokio` spells `::futures::FutureExt::map` instead of the configured `futures_crate_path`", "an async spawn macro with `futures_crate_path(p)` in a crate without `::futures`"),
    "C08-m": ("the `<caller>_` prefix of thread names is cached in a function-local `static OnceLock` (one per call site)", "the same call site evaluated from differently named threads"),
    "C09-m": ("the async spawn macros read `Handle::try_current()` where the macro is called and spawn onto that runtime", "the future is created under one (idle or dropped) runtime and polled on another"),
    "C10-m": ("the sync `??` helper skips its callback while the thread is panicking", "the call site is evaluated during unwinding (a flush-on-drop guard)"),
    "C11-m": ("async spawn macros keep the `let` of a block operand nested in a `>>>` group inside the wrapper closure", "a block inside a wrapper of an async spawn macro, observed for when / how often it runs"),
    "C12-m": ("the branch name is the re-parsed identifier (call-site hygiene)", "the invocation is forwarded by a `macro_rules!` wrapper of the caller"),
    "C13-m": ("the identifier that *calls* the handler is rebuilt with the handler expression's span", "the handler reaches the macro as `tt` tokens of a `macro_rules!` wrapper; nested, it silently calls the outer handler"),
    "C14-m": ("`check_parsed` treats tokens that end in a delimited group as a complete operand", "an unfinished operand ending in `)` / `]` / `}` in front of an operator look-alike (`Ok::<(), u8>(())`, `|f: fn(i32) -> i32| ..`)"),
    "C15-m": ("new `Expr::Verbatim` arm in the precedence test: `unreachable!` unless the tokens start with `&`", "a branch whose initial value is an inline `const { .. }` block"),
    "C16-m": ("under lazy branches a branch that is a zero-argument closure literal is not wrapped into `move || ..` again", "`lazy_branches(true)` (or a sync spawn macro), >1 active branch, a branch that is a bare `|| ..` literal"),
    "C17-m": ("as C13-m", "as C13-m"),
    "C18-m": ("as C03-m (seen through a panic in the unjoined branch)", "as C03-m"),
    "C19-m": ("a low-precedence initial value is delimited with a block `{ e }` instead of parentheses", "the initial value is `*place` followed by a by-reference method"),
    "C20-m": ("the helper definitions (`__inspect`, `__tb`, `__spawn_tokio`) are rendered once per macro kind into a process-wide cache keyed by (async, spawn) — but `__spawn_tokio` contains the invocation's `futures_crate_path`", "two async spawn expansions with different `futures_crate_path` in one process (either order)"),
}

res = {}
for f in sys.argv[1:]:
    for line in open(f, errors="replace"):
        m = re.match(r"\s+(C\d\d-m) under (C\d\d\w?): exit=(\d+) (CAUGHT|missed)\s*(.*)", line)
        if m:
            sid, prop, ex, verdict, detail = m.groups()
            if verdict == "CAUGHT":
                res.setdefault(sid, {})[prop] = detail.strip()
            elif ex == "0":
                res.setdefault(sid, {}).setdefault("missed:" + prop, "")
print("| seeded | what it does | needs | caught by (first witness) |")
print("|---|---|---|---|")
for sid in sorted(WHAT):
    what, needs = WHAT[sid]
    r = res.get(sid, {})
    caught = [(p, d) for p, d in r.items() if not p.startswith("missed:")]
    if caught:
        p, d = caught[0]
        d = d.replace("|", "\\|")
        cell = "%s: %s" % (p, d[:170])
        missed = [p[7:] for p in r if p.startswith("missed:") and p[7:] not in dict(caught)]
        if missed:
            cell += " (missed by %s)" % ", ".join(missed)
    elif r:
        cell = "**missed** by " + ", ".join(p[7:] for p in r)
    else:
        cell = "not run in this session (confirmed only; selftest pending)"
    print("| %s | %s | %s | %s |" % (sid, what.replace("|", "\\|"), needs.replace("|", "\\|"), cell))
