#!/bin/bash
# Confirms a seeded change in its scratch worktree: suite passes with it, demo fails with it and passes without.
# usage: confirm_seed.sh <Cxx> <a|b>     (worktree /tmp/wt/<Cxx>, deliverables /tmp/seed/<Cxx>/<a|b>)
set -u
ID=$1; V=$2
# optional: third argument = name under /verif/seeded (default <ID>-<V>); env SEEDROOT (/tmp/seed), WTDIR (/tmp/wt/<ID>)
NAME=${3:-$ID-$V}
SEEDROOT=${SEEDROOT:-/tmp/seed}
WT=${WTDIR:-/tmp/wt/$ID}; SD=$SEEDROOT/$ID/$V; OUT=/verif/seeded/$NAME
export CARGO_NET_OFFLINE=true RUST_BACKTRACE=0
cd $WT && git checkout -q -- . && git apply $SD/patch.diff || { echo "$ID-$V: patch does not apply"; exit 1; }
TESTS=$(cargo nextest run --workspace --no-fail-fast --offline 2>&1 | grep -E "Summary" | tail -1)
DEMO=$SD/demo
run_demo() {
  : > $SD/demo.$1.log
  ( cd $DEMO && if [ -f run.sh ]; then timeout 900 sh run.sh >$SD/demo.$1.log 2>&1; elif [ -d src/bin ] && ! [ -f src/main.rs ]; then rc=0; for b in src/bin/*.rs; do n=$(basename $b .rs); timeout 600 cargo run --offline --bin $n >>$SD/demo.$1.log 2>&1 || rc=1; done; (exit $rc); elif grep -q '^\[\[test\]\]\|#\[test\]' -r src tests 2>/dev/null && ! [ -f src/main.rs ]; then timeout 600 cargo test --offline >$SD/demo.$1.log 2>&1; else timeout 600 cargo run --offline >$SD/demo.$1.log 2>&1; fi; echo $? )
}
WITH=$(run_demo with)
git -C $WT checkout -q -- .
WITHOUT=$(run_demo without)
rm -rf $DEMO/target
echo "$ID-$V: tests=[$TESTS] demo_with_patch_exit=$WITH demo_without_patch_exit=$WITHOUT"
if echo "$TESTS" | grep -q "80 passed" && [ "$WITH" != "0" ] && [ "$WITHOUT" = "0" ]; then
  mkdir -p $OUT && cp $SD/patch.diff $OUT/ && rm -rf $OUT/demo && cp -r $DEMO $OUT/demo && cp $SD/NOTES.md $OUT/NOTES.md
  python3 - "$ID" "$V" "$TESTS" "$WITH" "$WITHOUT" "$NAME" <<'PY'
import json,sys,os
id,v,tests,w,wo,name=sys.argv[1:7]
out='/verif/seeded/%s'%name
notes=open(os.path.join(out,'NOTES.md')).read()
meta={"property":id,"variant":v,"breaks":id,"needs_to_manifest":notes[:1500],
 "confirmed":{"worktree":"%s (scratch, removed afterwards)"%os.environ.get("WTDIR","/tmp/wt/"+id),"suite_with_patch":tests.strip(),"demo_with_patch_exit":int(w),"demo_without_patch_exit":int(wo),
 "commands":["git apply patch.diff","cargo nextest run --workspace --no-fail-fast --offline","(cd demo && cargo run|test --offline)","git checkout -- .","(cd demo && cargo run|test --offline)"]},
 "detected_by":None}
json.dump(meta,open(os.path.join(out,'meta.json'),'w'),indent=1)
PY
  echo "$NAME: CONFIRMED"
else
  echo "$NAME: NOT CONFIRMED"
fi
