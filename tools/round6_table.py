#!/usr/bin/env python3
"""Builds the round-6 table of DESIGN.md section 9.9 from the selftest logs (usage: round6_table.py <log>...)."""
import re
import sys

WHAT = {
    "C01-k": ("hoisted block operands of `<|` / `<=` / `!>` are named by (position, branch) instead of (branch, position): a block at the mirrored position in the same step shadows it", "two blocks at mirrored (branch, position) in one step"),
    "C01-l": ("the closure generated for a `>>>` group becomes a `move` closure (a well-meant fix for spawn macros)", "an operand inside a wrapper that writes a caller local, or reads a move-only one that is used again"),
    "C02-k": ("`>>>` / `<<<` balance counter reset *after* the accounting of a step-opening action: `~op >>> .. <<<` rejected", "a deferred wrapper closed explicitly in its own step"),
    "C02-l": ("as C01-l", "as C01-l"),
    "C03-k": ("non-try macros merge the remaining steps of the last active branch into one chain: a capture of step k+1 is hoisted in front of step k's callback", "one branch at least two steps longer than all others, a capture in its second solo step"),
    "C03-l": ("in try macros a deferred `~<|` / `~<=` / `~!>` no longer opens a step", "a `~` in front of an error combinator, a sibling doing observable work"),
    "C04-k": ("last step of the sync try macros sorts the result variables by step count before transposing: tuple ordered by depth", "a longer branch in front of a shorter one"),
    "C04-l": ("async try: finished branches and last-step branches swapped between transposer and caller: tuple = (last-step branches, earlier-finished ones)", "an earlier-finished branch in front of one still active in the last step, success path"),
    "C05-k": ("results transposer folds from the wrong end: failures are examined in the order 1, 2, .., n-1, 0", "branch 0 and another branch fail in the last step"),
    "C05-l": ("re-introduces defect 1 (match arms labelled with the branch index)", "failure in a middle step behind a finished lower branch"),
    "C06-k": ("no abort check when a single branch is active in a non-final step of the sync try macros", "the lone branch fails, a later step reacts (`~<=`, capture, operand)"),
    "C06-l": ("as C03-l", "as C03-l"),
    "C07-k": ("the try async-spawn macros use `futures::join!` and transpose afterwards: they wait for every branch and report the lowest-numbered failure", "a branch fails while a lower-numbered sibling fails later or never finishes"),
    "C07-l": ("the `__spawn_tokio` helper spells `::futures::future::..` instead of the configured `futures_crate_path`", "an async spawn macro with `futures_crate_path(p)` in a crate that has no `futures` at its root"),
    "C09-k": ("single-branch, combinator-less, handler-less async macro expands to `Box::pin(<operand>)`: the operand is evaluated at call time", "exactly that shape, observed before the first poll"),
    "C09-l": ("`__spawn_tokio` becomes an `async fn` *and* the try-spawn macros await the task futures in branch order: task i+1 is spawned only after task i completed", "a lower branch that depends on progress of a higher one"),
    "C10-k": ("in try macros a leading `<|` / `<=` / `!>` of a step >= 1 is not generated (\"can never fire\"): its operand is no longer evaluated", "an error combinator directly behind `~`, an operand whose evaluation is observable"),
    "C10-l": ("a hoisted block value used inside a `>>>` group is passed as `.clone()`", "a block operand inside a wrapper that owns non-Copy state"),
    "C11-k": ("hoisted definitions of a step kept in a `BTreeMap` keyed by name: lexicographic order for two-digit indices", "11 branches or a block at position >= 10"),
    "C11-l": ("block operands inside `?|> >>>`, `?@ >>>`, `?|>@ >>>`, `?&!> >>>` are expanded in place (per element) instead of hoisted", "a block operand inside one of those wrappers"),
    "C12-k": ("branch names stored compacted (`filter_map`) and looked up by branch index: an unnamed branch in front shifts every name", "an unnamed branch before a named one, a later capture reading the name"),
    "C12-l": ("the recorded name is re-parsed (`parse_str`) and loses the caller's hygiene context", "the invocation is reached through a `macro_rules!` of the caller"),
    "C13-k": ("single-branch fast path of the handler: async `map` becomes `FutureExt::map` (the handler gets the whole `Result`, also on failure)", "an async try macro with exactly one branch and a `map` handler"),
    "C13-l": ("handler expression evaluated after the steps, inside the scope of the `let`-named results", "a `let`-named branch and a handler that mentions a caller variable of that name"),
    "C14-k": ("new diagnostic \"Unexpected `>>>`\" fires on any three `>` in a row at the top level of an operand", "`collect::<Option<Vec<u8>>>()` in a brace-less closure, `=>[] Vec<Vec<Vec<u8>>>`"),
    "C14-l": ("operand re-validation skipped for combinators \"without Rust look-alikes\"; `?>` and `!>` are wrongly on that list", "`x? > y` or a never type closing a generic list inside an incomplete operand"),
    "C15-k": ("wrapper balance check runs before the step-boundary reset: `~<<<` after an open wrapper is accepted and the generator panics", "`Ok(1) |> >>> |> f ~<<<`"),
    "C15-l": ("the diagnostic for a dangling `~` reads the token behind it with `expect`", "a `~` as the very last token of the input"),
    "C16-k": ("non-macro joiner bound once (`let __jn = j;`)", "a generic function joiner over two joined steps with different types"),
    "C16-l": ("the parser records `lazy_branches(false)` / `transpose_results(false)` as \"not given\"", "an explicit `false` where the macro's default is `true`"),
    "C17-k": ("as C05-l", "as C05-l"),
    "C17-l": ("`__spawn_tokio` returns `Pin<Box<dyn Future>>` without `+ Send`", "an async-spawn macro nested in a spawned branch of another"),
    "C18-k": ("non-try async-spawn macros await their task handles one after another in branch order", "a higher branch panics while a lower one is pending"),
    "C18-l": ("thread handles wrapped in a guard whose `Drop` joins the thread and resumes its panic", "a branch panics while a higher-index sibling is still running (caller blocked) or panics too (abort)"),
    "C19-k": ("between-step failure check of `try_join!` collects the failed positions into a `Vec`", "a branch fails in a non-final step (collecting an empty iterator does not allocate)"),
    "C19-l": ("`is_block_expr` widened to `unsafe` / `if` / `match` / loops: such operands are hoisted in front of the step", "an `if` / `match` operand whose borrow or move conflicts with an earlier branch"),
    "C20-k": ("hoisted-operand names numbered by a process-wide counter that every expansion resets", "two expansions with block captures overlapping in time"),
    "C20-l": ("the `__inspect` helper is only emitted when a thread-local flag says it was used; the async path sets the flag and never clears it", "an async `??` expansion followed by a sync expansion without `??` on the same thread"),
}

res = {}
for f in sys.argv[1:]:
    for line in open(f, errors="replace"):
        m = re.match(r"\s+(C\d\d-[kl]) under (C\d\d\w?): exit=(\d+) (CAUGHT|missed)\s*(.*)", line)
        if m:
            sid, prop, ex, verdict, detail = m.groups()
            if verdict == "CAUGHT":
                res.setdefault(sid, {})[prop] = detail.strip()
            elif ex == "0":
                res.setdefault(sid, {}).setdefault("missed:" + prop, "")
print("| seeded | what it does | needs | caught by (first witness) |")
print("|---|---|---|---|")
for sid in sorted(WHAT):
    what, needs = WHAT[sid]
    r = res.get(sid, {})
    caught = [(p, d) for p, d in r.items() if not p.startswith("missed:")]
    if caught:
        p, d = caught[0]
        d = d.replace("|", "\\|")
        cell = "%s: %s" % (p, d[:170])
        missed = [p[7:] for p in r if p.startswith("missed:") and p[7:] not in dict(caught)]
        if missed:
            cell += " (missed by %s)" % ", ".join(missed)
    elif r:
        cell = "**missed** by " + ", ".join(p[7:] for p in r)
    else:
        cell = "not run in this session (confirmed only; selftest pending)"
    print("| %s | %s | %s | %s |" % (sid, what.replace("|", "\\|"), needs.replace("|", "\\|"), cell))
