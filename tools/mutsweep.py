#!/usr/bin/env python3
"""Systematic mutation sweep over olegnn/join (self-validation of the monitors; not a MANIFEST command).

Stage A  (`mutsweep.py filter --out F.json [--workers N] [--files a,b]`):
    enumerates small textual mutants of the non-test code of join_impl/src and of the Config triples in
    join/src/lib.rs, applies each in a scratch git worktree of /repo (under $MS_SCRATCH, default /tmp/ms), and runs the
    pinned baseline test-suite. Classifies: nocompile / killed (by the 80 baseline tests) / survivor.
Stage B  (`mutsweep.py checks --in F.json --out G.json [--workers N]`):
    for every survivor runs the quick checks (JOIN_REPO=<worktree>, own VERIF_WORK / VERIF_EVID) in an order that
    starts with the cheapest broad ones, until one reports a VIOLATION; survivors that no check catches are listed
    for manual classification (equivalent mutant vs. gap in the monitors).
Nothing is ever written to /repo; worktrees and their build output are removed at the end.
"""
import json, os, re, subprocess, sys, shutil, threading, time, hashlib, queue

ROOT = os.path.dirname(os.path.dirname(os.path.abspath(__file__)))
REPO = "/repo"
SCRATCH = os.environ.get("MS_SCRATCH", "/tmp/ms")

FILES = [
    "join_impl/src/join/join_output.rs",
    "join_impl/src/join/parse.rs",
    "join_impl/src/join/mod.rs",
    "join_impl/src/join/name_constructors.rs",
    "join_impl/src/parse/utils.rs",
    "join_impl/src/parse/unit.rs",
    "join_impl/src/action_expr_chain/builder.rs",
    "join_impl/src/action_expr_chain/mod.rs",
    "join_impl/src/chain/group/action_group.rs",
    "join_impl/src/chain/group/combinator.rs",
    "join_impl/src/chain/group/group_determiner.rs",
    "join_impl/src/chain/group/expr_group.rs",
    "join_impl/src/chain/expr/process_expr.rs",
    "join_impl/src/chain/expr/err_expr.rs",
    "join_impl/src/chain/expr/initial_expr.rs",
    "join_impl/src/chain/expr/macros.rs",
    "join_impl/src/chain/expr/mod.rs",
    "join_impl/src/handler.rs",
    "join/src/lib.rs",
]

# (name, regex, replacement)
OPS = [
    ("eq2ne", r"==", "!="),
    ("ne2eq", r"!=", "=="),
    ("and2or", r" && ", " || "),
    ("or2and", r" \|\| ", " && "),
    ("true2false", r"\btrue\b", "false"),
    ("false2true", r"\bfalse\b", "true"),
    ("gt2ge", r" > ", " >= "),
    ("ge2gt", r" >= ", " > "),
    ("lt2le", r" < ", " <= "),
    ("le2lt", r" <= ", " < "),
    ("gt2lt", r" > ", " < "),
    ("plus1to0", r" \+ 1\b", " + 0"),
    ("plus1to2", r" \+ 1\b", " + 2"),
    ("minus1to0", r" - 1\b", " - 0"),
    ("pluseq", r" \+= ", " -= "),
    ("minuseq", r" -= ", " += "),
    ("norev", r"\.rev\(\)", ""),
    ("some2none", r"\bis_some\(\)", "is_none()"),
    ("none2some", r"\bis_none\(\)", "is_some()"),
    ("ifnot", r"\bif !", "if "),
    ("first2last", r"\.first\(\)", ".last()"),
    ("last2first", r"\.last\(\)", ".first()"),
    ("max2min", r"\.max\(\)", ".min()"),
    ("zero2one", r"\b0\.\.", "1.."),
    ("stepn+1", r"\bstep_number\b(?!\s*[:,)|]\s*(impl|usize))", "(step_number + 1)"),
    ("bidx+1", r"\bbranch_index\b", "(branch_index + 1)"),
    ("eidx+1", r"\bexpr_index\b", "(expr_index + 1)"),
    ("idx+1", r"\bindex\b", "(index + 1)"),
    ("gt1togt0", r" > 1\b", " > 0"),
    ("gt1togt2", r" > 1\b", " > 2"),
    ("unwrapor", r"unwrap_or\(false\)", "unwrap_or(true)"),
    ("filter_map2find_map", r"\.filter_map\b", ".find_map"),
    ("find_map2filter_map", r"\.find_map\b", ".filter_map"),
    ("and_then2map", r"\.and_then\b", ".map"),
    ("or_else2or", r"\.or_else\b", ".or"),
    ("skip_while", r"\.take_while\b", ".skip_while"),
    ("any2all", r"\.any\(", ".all("),
    ("all2any", r"\.all\(", ".any("),
    ("pos2rpos", r"\.position\(", ".rposition("),
    ("delstmt", None, None),          # delete a single-line expression statement
    ("swaplines", None, None),        # swap two adjacent table / match-arm lines
]


def code_region(path, text):
    """Line indices that are mutable code: not comments/docs, not inside #[cfg(test)] mod (assumed to run to EOF)."""
    lines = text.split("\n")
    ok = []
    in_test = False
    for i, l in enumerate(lines):
        s = l.strip()
        if s.startswith("#[cfg(test)]"):
            in_test = True
        if in_test:
            continue
        if s.startswith("//") or s.startswith("#[") or s.startswith("#!") or not s:
            continue
        if s.startswith("use ") or s.startswith("pub use ") or s.startswith("mod ") or s.startswith("pub mod "):
            continue
        ok.append(i)
    return lines, ok


def enum_mutants(files):
    muts = []
    for f in files:
        text = open(os.path.join(REPO, f)).read()
        lines, ok = code_region(f, text)
        islib = f == "join/src/lib.rs"
        for i in ok:
            l = lines[i]
            if islib and not re.search(r"is_async|is_try|is_spawn", l):
                continue
            code = l.split("//")[0] if "//" in l and '"' not in l else l
            for name, rx, rep in OPS:
                if rx is None:
                    continue
                for m in re.finditer(rx, code):
                    new = l[:m.start()] + m.expand(rep) + l[m.end():]
                    if new != l:
                        muts.append({"file": f, "line": i + 1, "op": name, "col": m.start(), "old": l, "new": [new]})
            s = l.strip()
            # statement deletion: a single-line call statement (no let / return / control flow)
            if not islib and re.match(r"^[a-z_][a-z_0-9\.]*(\(|\.|\s*[+\-]?=\s).*;$", s) and not re.match(r"^(let|return|break|continue|use|pub|type|const|static)\b", s):
                muts.append({"file": f, "line": i + 1, "op": "delstmt", "col": 0, "old": l, "new": []})
            # adjacent swap of table lines / match arms ending in ',' with same indentation
            if f.endswith("join/parse.rs") and i + 1 < len(lines) and (i + 1) in ok:
                a, b = lines[i], lines[i + 1]
                ia, ib = len(a) - len(a.lstrip()), len(b) - len(b.lstrip())
                if "Token!" in a and "Token!" in b and ia == ib and a.rstrip().endswith(",") and b.rstrip().endswith(",") and a.strip() != b.strip() \
                   and a.count("(") == a.count(")") and b.count("(") == b.count(")") \
                   and a.count("{") == a.count("}") and b.count("{") == b.count("}"):
                    muts.append({"file": f, "line": i + 1, "op": "swaplines", "col": 0, "old": a + "\n" + b, "new": [b, a], "span": 2})
    for k, m in enumerate(muts):
        m["id"] = "M%04d" % k
    return muts


def sh(cmd, cwd=None, env=None, timeout=None):
    try:
        p = subprocess.run(cmd, cwd=cwd, env=env, stdout=subprocess.PIPE, stderr=subprocess.STDOUT, text=True, timeout=timeout)
        return p.returncode, p.stdout
    except subprocess.TimeoutExpired as e:
        return 124, (e.stdout or "") if isinstance(e.stdout, str) else ""


def apply_mut(wt, m):
    p = os.path.join(wt, m["file"])
    lines = open(p).read().split("\n")
    i = m["line"] - 1
    span = m.get("span", 1)
    if "\n".join(lines[i:i + span]) != m["old"]:
        # the file moved since the mutant was enumerated: relocate by unique text
        cands = [k for k in range(len(lines)) if "\n".join(lines[k:k + span]) == m["old"]]
        assert len(cands) == 1, (m["id"], "cannot relocate", m["old"])
        i = cands[0]
    lines[i:i + span] = m["new"]
    open(p, "w").write("\n".join(lines))


def restore(wt):
    sh(["git", "-C", wt, "checkout", "--", "."])


def mk_worktree(n):
    wt = os.path.join(SCRATCH, "wt%d" % n)
    if os.path.exists(wt):
        sh(["git", "-C", REPO, "worktree", "remove", "--force", wt])
        shutil.rmtree(wt, ignore_errors=True)
    rc, out = sh(["git", "-C", REPO, "worktree", "add", "--detach", wt, "HEAD"])
    assert rc == 0, out
    return wt


def rm_worktree(wt):
    sh(["git", "-C", REPO, "worktree", "remove", "--force", wt])
    shutil.rmtree(wt, ignore_errors=True)


BASE_ENV = dict(os.environ, CARGO_NET_OFFLINE="true", RUST_BACKTRACE="0", CARGO_TERM_COLOR="never")


def baseline(wt, jobs):
    env = dict(BASE_ENV, CARGO_BUILD_JOBS=str(jobs))
    rc, out = sh(["cargo", "check", "-p", "join_impl", "--offline", "-q"], cwd=wt, env=env, timeout=600)
    if rc != 0:
        return "nocompile", out[-400:]
    rc, out = sh(["cargo", "nextest", "run", "--workspace", "--no-fail-fast", "--offline", "--test-threads", str(jobs)], cwd=wt, env=env, timeout=1200)
    m = re.search(r"(\d+) tests? run: (\d+) passed", out)
    if rc == 0 and m and m.group(1) == m.group(2) and int(m.group(1)) >= 80:
        return "survivor", ""
    if "error: could not compile" in out or "error[E" in out and not m:
        return "nocompile-tests", out[-400:]
    if rc == 124:
        return "killed-timeout", ""
    fails = re.findall(r"^\s+FAIL \[.*?\] (\S+ \S+)", out, re.M)
    return "killed", ",".join(sorted(set(fails))[:4]) or out[-300:]


def stage_filter(out_path, workers, files):
    muts = enum_mutants(files)
    done = {}
    if os.path.exists(out_path):
        for r in json.load(open(out_path))["results"]:
            done[(r["file"], r["line"], r["op"], r["col"])] = r
    os.makedirs(SCRATCH, exist_ok=True)
    q = queue.Queue()
    for m in muts:
        if (m["file"], m["line"], m["op"], m["col"]) not in done:
            q.put(m)
    print("mutants: %d (already done %d)" % (len(muts), len(done)), flush=True)
    lock = threading.Lock()
    results = list(done.values())
    jobs = max(2, 16 // workers)

    def save():
        json.dump({"results": results}, open(out_path + ".tmp", "w"), indent=0)
        os.replace(out_path + ".tmp", out_path)

    def worker(n):
        wt = mk_worktree(n)
        # warm build
        baseline(wt, jobs)
        while True:
            try:
                m = q.get_nowait()
            except queue.Empty:
                break
            try:
                apply_mut(wt, m)
                t = time.time()
                cls, detail = baseline(wt, jobs)
                m["class"], m["detail"], m["secs"] = cls, detail, round(time.time() - t, 1)
            except Exception as e:
                m["class"], m["detail"] = "error", repr(e)
            finally:
                restore(wt)
            with lock:
                results.append(m)
                print("%s %s:%d %s -> %s %s" % (m["id"], m["file"].split("/")[-1], m["line"], m["op"], m["class"], m.get("detail", "")[:80].replace("\n", " ")), flush=True)
                if len(results) % 10 == 0:
                    save()
        rm_worktree(wt)

    ths = [threading.Thread(target=worker, args=(n,)) for n in range(workers)]
    for t in ths:
        t.start()
    for t in ths:
        t.join()
    save()
    cnt = {}
    for r in results:
        cnt[r["class"]] = cnt.get(r["class"], 0) + 1
    print("SUMMARY", cnt)


ORDER_PARSE = ["C14", "C15", "C13", "C05", "C01", "C02", "C04", "C03", "C11", "C12", "C16", "C17", "C18", "C08", "C09", "C07", "C10", "C06", "C19", "C20"]
ORDER_GEN = ["C15", "C14", "C13", "C05", "C04", "C03", "C01", "C02", "C11", "C12", "C16", "C17", "C18", "C08", "C09", "C07", "C10", "C06", "C19", "C20"]


def stage_checks(in_path, out_path, workers, only=None):
    res = json.load(open(in_path))["results"]
    surv = [r for r in res if r["class"] == "survivor"]
    if only:
        surv = [r for r in surv if r["id"] in only]
    done = {}
    if os.path.exists(out_path):
        for r in json.load(open(out_path))["results"]:
            done[(r["file"], r["line"], r["op"], r["col"])] = r
    q = queue.Queue()
    # uniform shifts of the indices that only name hoisted bindings are almost always equivalent: try them last
    surv.sort(key=lambda m: (m["op"] in ("bidx+1", "eidx+1", "idx+1", "swaplines"), m["id"]))
    for m in surv:
        if (m["file"], m["line"], m["op"], m["col"]) not in done:
            q.put(m)
    print("survivors: %d (already done %d)" % (len(surv), len(done)), flush=True)
    results = list(done.values())
    lock = threading.Lock()

    def save():
        json.dump({"results": results}, open(out_path + ".tmp", "w"), indent=0)
        os.replace(out_path + ".tmp", out_path)

    def worker(n):
        wt = mk_worktree(100 + n)
        work = os.path.join(SCRATCH, "work%d" % n)
        env = dict(os.environ, VERIF_SELFTEST="1", JOIN_REPO=wt, VERIF_WORK=work, VERIF_EVID=os.path.join(SCRATCH, "evid%d" % n), VERIF_SEED=os.environ.get("VERIF_SEED", "0"))
        while True:
            try:
                m = q.get_nowait()
            except queue.Empty:
                break
            try:
                apply_mut(wt, m)
            except AssertionError as e:
                m["caught_by"], m["witness"], m["tried"] = "SKIPPED", repr(e)[:200], []
                with lock:
                    results.append(m)
                    save()
                continue
            order = ORDER_GEN if ("join_output" in m["file"] or "name_constructors" in m["file"] or "lib.rs" in m["file"] or "process_expr" in m["file"] or "err_expr" in m["file"]) else ORDER_PARSE
            m["caught_by"], m["witness"], m["tried"] = None, "", []
            t0 = time.time()
            try:
                for prop in order:
                    r = subprocess.run([os.path.join(ROOT, "check"), "run", prop, "--tier", "quick"], env=env, stdout=subprocess.PIPE, stderr=subprocess.STDOUT, text=True)
                    lines = r.stdout.splitlines()
                    first = next((k for k, l in enumerate(lines) if l.startswith("VIOLATION")), None)
                    m["tried"].append([prop, r.returncode])
                    if r.returncode == 1 and first is not None:
                        m["caught_by"] = prop
                        m["witness"] = (lines[first + 1].strip()[:300] if first + 1 < len(lines) else "")
                        break
                    if r.returncode not in (0, 1):
                        m.setdefault("harness_errors", []).append([prop, r.stdout[-600:]])
            finally:
                restore(wt)
            m["check_secs"] = round(time.time() - t0, 1)
            with lock:
                results.append(m)
                print("%s %s:%d %s | %s => %s %s" % (m["id"], m["file"].split("/")[-1], m["line"], m["op"], m["old"].strip()[:70], m["caught_by"] or "UNCAUGHT", m["witness"][:100]), flush=True)
                save()
        rm_worktree(wt)
        shutil.rmtree(work, ignore_errors=True)
        shutil.rmtree(os.path.join(SCRATCH, "evid%d" % n), ignore_errors=True)

    ths = [threading.Thread(target=worker, args=(n,)) for n in range(workers)]
    for t in ths:
        t.start()
    for t in ths:
        t.join()
    save()
    unc = [r for r in results if not r["caught_by"]]
    print("SUMMARY survivors=%d caught=%d uncaught=%d" % (len(results), len(results) - len(unc), len(unc)))
    for r in unc:
        print("  UNCAUGHT %s %s:%d %s | %s -> %s" % (r["id"], r["file"], r["line"], r["op"], r["old"].strip()[:90], (r["new"][0].strip()[:90] if r["new"] else "<deleted>")))


def main():
    a = sys.argv[1:]
    def opt(name, default=None):
        return a[a.index(name) + 1] if name in a else default
    if a and a[0] == "list":
        ms = enum_mutants(opt("--files").split(",") if opt("--files") else FILES)
        for m in ms:
            print(m["id"], m["file"], m["line"], m["op"], "|", m["old"].strip()[:80], "->", (m["new"][0].strip()[:80] if m["new"] else "<deleted>"))
        print(len(ms))
        return 0
    if a and a[0] == "filter":
        stage_filter(opt("--out"), int(opt("--workers", "4")), opt("--files").split(",") if opt("--files") else FILES)
        return 0
    if a and a[0] == "checks":
        stage_checks(opt("--in"), opt("--out"), int(opt("--workers", "2")), set(opt("--only").split(",")) if opt("--only") else None)
        return 0
    print(__doc__)
    return 2


if __name__ == "__main__":
    sys.exit(main())
