#!/usr/bin/env python3
"""Regenerates MANIFEST.json from the table below (keeps it valid and in one place)."""
import json
import os

ROOT = os.path.dirname(os.path.dirname(os.path.abspath(__file__)))
props = [json.loads(l) for l in open(os.path.join(ROOT, "properties.jsonl"))]

CHECKS = {
    # id: (engine, category, technique, level text, level note, design ref)
    "C03": ("probe", "exploration", "runtime monitoring: barrier monitor over global event log under controlled gate release orders (threads, futures, tokio tasks)",
            "Executions of generated probe programs under all 12 macros; in every concurrent kind one branch per step is held at a gate while siblings run on, and the monitor asserts that no step-k+1 event exists (log order + controller-time assertion) and that each callback saw its own branch's step-k value. Held on the explored (program, plan, release order) triples only.",
            "Trusts the reference model's notion of step membership (taken from the generator's AST) and that gates only exist at probe boundaries.", "3/C03"),
    "C04": ("probe", "exploration", "runtime monitoring: self-identifying values compared element-wise with a reference model over exhaustive depth profiles",
            "Every depth profile within the tier bound (quick: n<=4,d<=3 sync/thread, n<=3,d<=2 async; thorough one deeper) plus random feature programs; values carry their provenance so a swapped index is visible. Exhaustive only over profiles within the bound, sampled operators.",
            "All branches have the same type on purpose; programs with differently typed branches are covered by the zoo corpus (C01).", "3/C04"),
    "C05": ("probe", "fault_enumeration", "runtime fault enumeration: every failure placement of each compiled program, result compared with the model",
            "All 2^P placements of failing results for programs with P<=10 failure-capable positions (sampled beyond), in the 6 try macros, async kinds under several completion orders; result must be the model's (candidate set for async). A panic is a violation.",
            "Model = author's reading of the statement; payload identity is the value history.", "3/C05"),
    "C06": ("probe", "fault_enumeration", "runtime fault enumeration with an abort monitor over the event log",
            "Same enumeration as C05; the monitor asserts that no Eval/Call/Capture/Handler event of a later step exists and (sync, thread kinds) that every branch of the failing step ran to its end.",
            "Events are only visible at probe boundaries; every user expression in the corpus is a probe.", "3/C06"),
    "C07": ("probe", "exploration", "runtime differential monitoring of macro variants on identical token streams",
            "The same program text is instantiated under every macro name and run under the same plans: plain vs spawn results must agree; alias vs target must agree in result, per-branch traces and thread names.",
            "Programs use Send + 'static values and non-communicating branches as the property requires.", "3/C07"),
    "C08": ("probe", "exploration", "runtime monitoring of thread identity/name/liveness with a gate controller (full arrival sets, release permutations)",
            "Every branch of a step is held at a gate until all have arrived (all alive at once, none waiting for a sibling), released in permuted orders; thread ids and names are checked against `<caller>_join_<i>` for named, renamed and unnamed callers; single-branch steps must run on the caller; Post must follow all step events. Liveness by bounded progress (3 consistent expiries).",
            "Nesting of spawn macros inside branches is checked by the nested programs of the big corpus (C17) for names up to depth 3.", "3/C08"),
    "C09": ("probe", "exploration", "runtime monitoring with a single-threaded executor / controlled tokio driver: logical quiescence, counting root waker, gate permutations, batches, spurious polls",
            "Laziness (no event before first poll / when dropped unpolled), independence (at every quiescent point each unfinished branch waits at its own next gate), wake-up propagation (root waker notified after each release) and completion (no logical deadlock) under enumerated release orders, batches and spurious polls.",
            "Pending points exist only in future-returning probes (initial values, and_then/or_else/then callbacks, async handlers).", "3/C09"),
    "C10": ("probe", "exploration", "runtime monitoring: event multiset vs model + move-only token ledger (create/drop counts)",
            "Counts of every Eval/Call/Capture/Snapshot/Handler event must equal the model's (prefix/subset only where try_join! legitimately cancels, or after a panic); the ledger of move-only tokens must be empty after each run; tokens are not Clone, so a cloning expansion does not compile (reported as violation).",
            "Exactly-once of iterator callbacks is covered by the zoo corpus (C01).", "3/C10"),
    "C11": ("probe", "exploration", "runtime monitoring: capture-prefix monitor over the event log, held captures",
            "Capture events of a step must lie after all events of the previous step and before every chain event of the step, in (branch, position) order, exactly once; in spawning kinds one capture per run is held so that an un-hoisted capture overlaps with sibling events.",
            "Iterator-operator operands and both fold operands are covered by the zoo corpus.", "3/C11"),
    "C12": ("probe", "exploration", "runtime monitoring: snapshots of `let` names inside later captures compared with the model",
            "Snapshots are taken in every later step (also after the named branch finished) and must equal the model's latest step result (still wrapped in try macros); the result must equal the model's (which ignores names). A names matrix assigns {unnamed, let, let mut} to every branch of small equal- and unequal-depth profiles; names are spelled plainly, as raw identifiers, through macro_rules parameters and inside invocations forwarded through a macro_rules wrapper; scope programs give the caller variables of the same names and types.",
            "Names are only observable from capture blocks, as in the property.", "3/C12"),
    "C13": ("probe", "exploration", "runtime monitoring: handler events (count, arguments) and results vs model under failure placements",
            "map/and_then only on success, then always, exactly once, arguments in branch order, async handler futures awaited (their gate must be passed before completion); scope programs check that the macro's value is f(..) for the f the user wrote (a handler that captures caller variables named like let-named branches), with the handler at every position. Compile-time rejection of wrong-kind / duplicate handlers is checked by the lab engine (see C15 evidence).",
            "Handler kinds per macro are the legal ones; illegal ones are exercised at site E1.", "3/C13"),
    "C16": ("probe", "exploration", "runtime monitoring: joiner events (count, arity, position) and stamped values vs model",
            "custom_joiner invoked once per step with >1 active branches, with that arity, inside its step; stamped values prove that the joiner output is used; lazy_branches(true) joiner calls its arguments (anything else does not compile); transpose_results(false) joiner output treated as the transposed Result.",
            "Option order/duplicates and futures_crate_path are checked at site E1 by the lab engine.", "3/C16"),
    "C18": ("probe", "fault_enumeration", "runtime fault injection: a panic at every probe position, catch_unwind at the caller, later-step monitor",
            "One run per (program, macro, position) with a panic injected in a value, operand expression, callback, capture, handler expression or handler call; the caller must observe a panic, no later-step event may exist, and the evaluation must return (bounded progress); positions in steps with two or more branches are run again with siblings parked at gates (async: all siblings; threads: the higher-index ones, handles being joined in branch order) and the panic must reach the caller while they are parked.",
            "Payload preservation is not required by the property.", "3/C18"),
    "C01": ("zoo", "exploration", "runtime differential monitoring: macro invocation vs the documented method chain compiled into the same binary (value + callback trace equality)",
            "Type-directed chains over Option/Result/Iterator/plain worlds (also inside async macros), coverage-forced over every (world, operator, operand spelling) transition, wrappers and sampled operator pairs, then random walks; every chain runs on all input shapes; value and per-branch callback traces must equal the plain-Rust twin; a twin whose reference compiles but whose macro form does not is a violation.",
            "Independent of join_impl; depends on rustc/std/futures for the meaning of the methods. Future/Stream worlds: see DESIGN.md section 3/C01 for what is covered.", "3/C01"),
    "C02": ("zoo", "exploration", "runtime differential monitoring: wrapped chains vs hand-nested closures (value + callback trace equality)",
            "The zoo twins that contain `>>>`: all ten wrapper operators, nesting depth 1-3, empty inner chains, inner block captures (sync kinds), explicit vs implicit closing (also several levels closed at once), operators after `<<<`, and coverage-forced shapes where a wrapper is left open at a step end and the next step starts with a deferred wrapper or operator.",
            "Same trusted base as C01.", "3/C02"),
    "C17": ("zoo", "exploration", "runtime differential monitoring on large-index and nested programs (value, capture counts, thread names vs plain Rust)",
            "24 branches x 24 actions in one step with a distinct capture on every action (12 x 12 for thread/async kinds), multi-step shapes up to 12 steps, both fold operands captured; every ordered pair of the 12 macros nested in operand, capture and handler position (thorough: triples); results must equal plain arithmetic, captures must be evaluated exactly once, innermost branches must see the inherited thread names. Half of the shards are compiled in a module that has its own items called futures, tokio, std, core, alloc and join (paths the expansion uses for itself must not be captured by them).",
            "Index bound 24 and nesting depth 2 (3 in thorough) as in the property's quantifier.", "3/C17"),
    "C19": ("zoo", "exploration", "runtime monitoring with a counting global allocator (armed per thread around the macro evaluation) + compile/run of bounds programs",
            "Allocation: allocation-free chains for join!/try_join! (twin-checked values) must cause 0 allocations; a control allocation must be counted (monitor self-test). Bounds: move-only, !Send and borrowing (& and &mut, captures, handlers, names) programs must compile under the macros the property names and evaluate to the expected values; a caller-stack matrix puts a closure that touches a caller local at wrapper depth 0-2 under four operators and four kinds of local, and spells the first value as a place expression (bare variable, parenthesized, field, index, deref) followed by a borrowing method, the place being observed afterwards; thorough also in release builds.",
            "Bounds are observed through rustc accepting sampled programs; it is evidence over those programs only.", "3/C19"),
    "C14": ("lab", "exploration", "runtime monitoring of the real parser (join_impl linked as a library): structure round trip through public accessors",
            "Random and systematically enumerated chain structures are rendered to DSL text, parsed by the real parser, and the parsed structure (operators, `~`, `>>>`/`<<<`, operand token strings, branch boundaries, `let` names, handler, options) must equal the generated one. All ordered operator pairs x flags, every operator x every adversarial operand, random chains up to 30 actions. Operands are admitted by an independent splitter so the oracle never demands more than the property's side condition.",
            "Site E1 uses proc_macro2's fallback lexer; the zoo corpus runs the same renderer through rustc.", "3/C14"),
    "C15": ("lab", "exploration", "runtime monitoring of the real expander with catch_unwind and outcome classification over labelled invalid inputs and random token edits; rustc reject corpus; thorough: coverage-guided fuzzing (libFuzzer, then AddressSanitizer on the corpus it built) with the same outcome oracle",
            "Every input ends in exactly one outcome class; internal panics, accepted structurally invalid inputs, outputs that are not a syntactically valid expression and non-termination are violations. Labelled mutations cover every invalidity named in the property, plus random token soups; the same illegal inputs are compiled through the 12 real macros by rustc (each must be an error at its own line, never a proc-macro panic). The thorough tier adds a coverage-guided run: libFuzzer byte strings are decoded into DSL token streams (operator / operand / option / handler vocabulary with glue and raw punctuation, or raw text), expanded under every Config by the real parser + generator, judged by the same oracle inside the fuzz target (findings are recorded without stopping the run and confirmed through `lab total` before they count), first without a sanitizer for throughput, then under AddressSanitizer on the corpus that was built.",
            "Wrong-kind handler and futures_crate_path-on-sync rejections are raised by the generator as labelled configuration errors (panic with message), which is the pinned behaviour.", "3/C15"),
    "C20": ("lab", "exploration", "runtime monitoring: repeated and concurrent expansion of the real expander, token-string comparison; valgrind memcheck on a sample of the same workload (thorough: Miri data-race/UB interpreter on a 4-thread smoke run)",
            "Each (input, config) is expanded 4x sequentially in shuffled orders and 64x from 16 threads; all outputs must be identical strings; the same holds across two fresh processes that differ in working directory, environment variables, locale and input order, and under a second lexer version with inputs that make single expansions fail or panic. Thorough tier additionally interprets a concurrent expansion under Miri (fn-pointer-through-union read, Send/Sync claims, hidden statics).",
            "Miri sub-check uses proc-macro2 1.0.106 instead of 1.0.51 (nightly cannot build the latter).", "3/C20"),
}

# additions of the fourth round (DESIGN.md sections 9.6 / 9.7)
EXTRA = {
    "C01": " Invocations stand in different item / expression contexts (generic fn, closure, method, trait default method, argument position, absolute path, with and without an expected type), corpora of odd seeds are edition-2021 crates; collect types also as bare aliases, `Option<Vec>` / `Result<Vec>` worlds so that `<|`, `<=`, `!>`, `<<<` follow a collect. Every async twin runs every plan twice: with sources that are ready at once and with pending points inside source futures and streams (same on both sides). Wrapper-capture twins: operands inside `>>>` groups touch caller locals like the hand-nested closure. Fragment twins: `$e:expr` fragments that bind weaker than a method call as initial value, inside an operand and as operand; `let`-named branches over `||` / `&&` / struct-literal values; open wrappers ending in a bare `Some` / `Ok` path at a step end; lazy branches that are closure literals; an invocation evaluated during unwinding; a block operand inside a wrapper of an async spawn macro. Async try twins that fail while earlier branches are still pending (stuttering sources) are compared by prefixes.",
    "C02": " Every wrapper that can be empty is forced with an empty inner chain (also `=> >>>` on nested options / results / try-futures of try-futures and `?|> >>>` on iterators of options / streams of option-futures). Every async twin also runs with pending points inside its source futures / streams. Wrapper-capture twins (depth 1-2): a caller counter bumped inside a wrapper, a move-only caller local read in two wrappers and after the macro.",
    "C07": " The comparison also runs under panic (+ failure) plans for the sequential and thread kinds ('same result' includes 'both panic'), and in a crate that knows the library only under another name (renamed dependency, decoy `join` module, forbid(unsafe_code), deny(warnings)). All 12 macros are also compiled, run and compared inside a scope that has its own items named like prelude items (`Ok`, `Some`, `Box`, `Vec`, `Send`, `Fn`, `format!`, `panic!`, ..). Caller contexts: a `#![no_std]` library using the sequential macros must compile, an edition-2015 binary runs all four families and compares plain / spawn / alias; the caller's own traits named `FutureExt` / `StreamExt` / .. are called by path inside all async macros.",
    "C04": " The scope programs of the big corpus (caller variables named like branches, a sibling's name read by a plain closure of a later step) also run here.",
    "C05": " Every fifth unnamed program under `join!` / `try_join!` stands in a loop of the caller whose first values `continue` / `break` it; one `continue` is taken once per run and the invocation must complete in the caller's next iteration.",
    "C08": " Zoo twins under the thread kinds whose steps all have every branch active must not log a callback on the calling thread (also for steps opened by deferred operand-less operators behind lazy iterator closures); nested spawn twins run a second time from a differently named caller; `lazy_branches(false)` twins. 'The caller continues' covers the next step as well as the code after the macro: no step-k+1 event before the last chain event of a step-k thread or while a step-k gate is held; gated runs also under single-failure plans of the try kinds.",
    "C09": " Every async instantiation also runs ungated under other polling contexts (multi-thread `block_on`, `futures::executor::block_on` nested in a runtime, `block_in_place`, `LocalSet`, current-thread `block_on`, futures executors, and tokio polling the future next to a sibling that exhausts the coop budget). In the task kinds the future is created in turn inside the polling runtime, in plain synchronous code, and inside the context of another idle runtime; it is always polled on the harness runtime. Bare programs (branches that are only their initial value, alone and next to ordinary branches) are part of the laziness and progress workload.",
    "C11": " Captures also together with custom joiners (eager and lazy branches) and in the large-index programs of the big corpus (capture sequence over one- and two-digit positions). Block captures are also forwarded as `$e:expr` fragments of a user macro_rules (they are still block captures).",
    "C12": " `let mut` names are observed through `&mut`; names also together with custom joiners and lazy branches.",
    "C13": " Handlers (and operands) are also forwarded as `$e:expr` fragments of a user macro_rules (None-delimited groups). A handler that does not fit the macro kind must be a diagnostic; a generator panic is a violation whatever its message.",
    "C14": " The same structures are also parsed with operands as None-delimited groups (macro_rules fragments). Operands that start with a non-empty bracket group (`[f, g][1]`) are admitted behind every operator (`=>[]` is the collect operator only with empty brackets).",
    "C16": " Sync `transpose_results(false)` programs are multi-step (steps continue from the unwrapped value); function joiners with lazy branches span several joined steps. Joiners are also written as function path, generic path, `receiver.method`, method on a call result, parenthesized closure and call expression (sync kinds, arity 2). Also bare closures (with and without `move`) as joiners. Sync `transpose_results(false)` programs are ordinary multi-step programs of unequal depth (the joiner's output is the transposed Result in every step).",
    "C17": " Nested thread-spawning macros meet at a rendezvous (their branches must be alive together although nested); a 6- / 11-branch inner macro is nested in operand position of the outer kinds. The rustc corpus of C07 (own prelude names, lower-case constants named like internal bindings, `#![no_implicit_prelude]`) guards the hygiene repairs of section 5, rows 13 and 20. Nested invocations that are forwarded, handler included, as raw tokens of a caller's macro_rules inside an operand / the handler of an outer invocation with its own handler.",
    "C19": " The bounds programs also come in wide (5 / 8 / 12-branch) forms. `??` callbacks that mutate caller locals are part of the caller-stack matrix.",
    "C18": " The first panic positions of every task-kind case are also run with tokio itself polling the macro's future (multi-thread runtime; next to a sibling that exhausts the coop budget).",
    "C20": " The second process of the cross-process comparison runs inside a hostile package directory (manifest with renamed tokio / futures / join, cargo config) as cwd and CARGO_MANIFEST_DIR. Rejected inputs count as invocations: their complete diagnostics are compared, including inputs with several different mistakes at once. A sample of the determinism workload (16 inputs quick / 320 thorough, each expanded sequentially and from 4 threads) also runs under valgrind memcheck (the expander's only `unsafe` read and its Send / Sync claims).",
    "C10": " Cancellation runs: in fully gated runs of the async kinds the macro's future is dropped at every quiescent pending point in turn; the token ledger must be empty right after the drop (task kinds: after the detached tasks ran out and the runtime is gone) and what ran before is a prefix of the model.",
    "C15": " No generator panic is whitelisted (a handler / option that does not fit the macro kind must come out as a diagnostic). Labelled classes also: a `~` inside an operand that is not complete yet, `let` names with a subpattern.",
}

NOT_YET = "check not built yet (framework under construction; see DESIGN.md section 8)"

checks = []
na = []
for p in props:
    pid = p["id"]
    if pid in CHECKS:
        eng, cat, tech, text, note, ref = CHECKS[pid]
        text += EXTRA.get(pid, "")
        if pid in ("C03", "C08", "C09", "C10", "C18"):
            text += " Thorough tier additionally interprets the same workload on a handful of small programs under Miri, one process per Miri seed (different deterministic preemptive schedules), so undefined behaviour, data races and leaks in anything the runs reach are reported by the interpreter."
        checks.append({
            "property_id": pid,
            "quick_cmd": "./check run %s --tier quick" % pid,
            "thorough_cmd": "./check run %s --tier thorough" % pid,
            "evidence_file": "/verif/evidence/%s.json" % pid,
            "replay_cmd_template": "./check replay {path}",
            "engine": eng,
            "level_claimed": {"category": cat, "text": text, "design_ref": "DESIGN.md section " + ref},
            "level_note": note,
            "technique": tech,
        })
    else:
        na.append({"property_id": pid, "reason": NOT_YET})

m = {
    "version": 1,
    "setup_cmd": "./check setup",
    "hooks": {
        "guard": "join_verif",
        "enable": "no source hooks are needed: every observation point is public API of join_impl or user-position code inside the macro input; checks build /repo as a path dependency of generated crates",
        "baseline_off_cmd": "cd /repo && cargo nextest run --workspace --no-fail-fast --offline",
        "source_commits": [],
        "add_only": True,
    },
    "engines": [
        {"name": "probe", "path": "vrt/ + gen/probe.py", "serves_properties": sorted(k for k, v in CHECKS.items() if v[0] == "probe"),
         "kind_free_text": "generated probe programs over Result<Val,Fail> compiled against /repo, run under enumerated plans and schedules; reference model + monitors in vrt"},
        {"name": "zoo", "path": "vrt/src/zoo.rs + gen/zoo.py", "serves_properties": ["C01", "C02", "C17", "C19"],
         "kind_free_text": "twin functions (macro vs plain method chain with identical operand text) compiled against /repo and compared at run time"},
        {"name": "lab", "path": "lab/ + gen/dsl.py", "serves_properties": ["C10", "C13", "C14", "C15", "C16", "C20"],
         "kind_free_text": "site E1 harness linking join_impl as a library (round trip, totality, determinism, marker counting, option orders) plus rustc reject / futures_crate_path / renamed-dependency corpora"},
        {"name": "fuzz", "path": "fuzz/ + check (fuzz_c15)", "serves_properties": ["C15"],
         "kind_free_text": "libFuzzer target (cargo-fuzz, nightly) linking join_impl and the lab oracle: byte strings decoded into DSL token streams, expanded under every Config; phase 1 without sanitizer, phase 2 replays the corpus under AddressSanitizer; thorough tier of C15 only"},
    ],
    "checks": checks,
    "not_applicable": na,
    "notes": "Eleven genuine defects were repaired by fix: commits in /repo (12857a3 C05, adad8bc C15, d8b5a10 C14, afb8dd7 C01, d743b69 C15/C16, fb5f9af C15, 1cc49f7 C15, 8762e98 C14, 66989f9 C15, 675249b+1fa463c C15, dfba8b7 C15); one more is recorded as a known finding (C15: a C-string literal operand makes the macro panic inside syn 1); see KNOWN_FINDINGS.txt and DESIGN.md section 5.",
}
json.dump(m, open(os.path.join(ROOT, "MANIFEST.json"), "w"), indent=1)
print("checks=%d not_applicable=%d" % (len(checks), len(na)))
