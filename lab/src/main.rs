//! Site E1 harness: links join_impl as an ordinary library and runs the real parser and
//! generator on case files written by gen/dsl.py. Monitors: round trip of parsed structure
//! (C14), outcome classification / totality (C15), determinism (C20), marker counting (C10),
//! equal-expansion groups (C16). Also hosts the independent operand-pool validator.
use join_impl::chain::expr::{ActionExpr, ErrExpr, InitialExpr, InnerExpr, ProcessExpr};
use join_impl::chain::group::{ApplicationType, MoveType};
use join_impl::chain::Chain;
use join_impl::{generate_join, Config, JoinInputDefault};
use proc_macro2::{Delimiter, TokenStream, TokenTree};
use quote::ToTokens;
use std::collections::HashMap;
use std::panic::{catch_unwind, AssertUnwindSafe};
use std::sync::mpsc;
use std::time::{Duration, Instant};

fn unesc(s: &str) -> String {
    let mut o = String::new();
    let mut it = s.chars();
    while let Some(c) = it.next() {
        if c == '\\' {
            match it.next() {
                Some('n') => o.push('\n'),
                Some('t') => o.push('\t'),
                Some('\\') => o.push('\\'),
                Some(x) => {
                    o.push('\\');
                    o.push(x)
                }
                None => o.push('\\'),
            }
        } else {
            o.push(c);
        }
    }
    o
}
fn jesc(s: &str) -> String {
    let mut o = String::from("\"");
    for c in s.chars() {
        match c {
            '"' => o.push_str("\\\""),
            '\\' => o.push_str("\\\\"),
            '\n' => o.push_str("\\n"),
            '\t' => o.push_str("\\t"),
            '\r' => o.push_str("\\r"),
            c if (c as u32) < 0x20 => o.push_str(&format!("\\u{:04x}", c as u32)),
            c => o.push(c),
        }
    }
    o.push('"');
    o
}
fn nows(s: &str) -> String {
    s.chars().filter(|c| !c.is_whitespace()).collect()
}
fn ts<T: ToTokens>(t: &T) -> String {
    nows(&t.to_token_stream().to_string())
}
fn cfg_of(s: &str) -> Config {
    let n: u8 = s.parse().unwrap_or(0);
    Config { is_try: n & 1 != 0, is_async: n & 2 != 0, is_spawn: n & 4 != 0 }
}

// ---------------------------------------------------------------------------------------------
// canonical structure of a parsed input, through the public accessors only

fn member_name(e: &ActionExpr) -> &'static str {
    match e {
        ActionExpr::Initial(InitialExpr::Single(_)) => "Initial",
        ActionExpr::Err(ErrExpr::Or(_)) => "Or",
        ActionExpr::Err(ErrExpr::OrElse(_)) => "OrElse",
        ActionExpr::Err(ErrExpr::MapErr(_)) => "MapErr",
        ActionExpr::Process(p) => match p {
            ProcessExpr::Map(_) => "Map",
            ProcessExpr::Then(_) => "Then",
            ProcessExpr::AndThen(_) => "AndThen",
            ProcessExpr::Filter(_) => "Filter",
            ProcessExpr::FindMap(_) => "FindMap",
            ProcessExpr::Flatten => "Flatten",
            ProcessExpr::Inspect(_) => "Inspect",
            ProcessExpr::Dot(_) => "Dot",
            ProcessExpr::Chain(_) => "Chain",
            ProcessExpr::Collect(_) => "Collect",
            ProcessExpr::Enumerate => "Enumerate",
            ProcessExpr::FilterMap(_) => "FilterMap",
            ProcessExpr::Find(_) => "Find",
            ProcessExpr::Fold(_) => "Fold",
            ProcessExpr::Partition(_) => "Partition",
            ProcessExpr::TryFold(_) => "TryFold",
            ProcessExpr::Unzip(_) => "Unzip",
            ProcessExpr::Zip(_) => "Zip",
            ProcessExpr::UNWRAP => "UNWRAP",
        },
    }
}

fn canon(j: &JoinInputDefault) -> String {
    let mut parts: Vec<String> = Vec::new();
    if let Some(p) = &j.futures_crate_path {
        parts.push(format!("O:futures_crate_path({})", ts(p)));
    }
    if let Some(p) = &j.custom_joiner {
        // since fix d014831 of /repo the parser stores a closure joiner parenthesized (it is pasted in front of an argument list);
        // that is a representation detail, not a matter of how branches are split
        let shown = match syn::parse2::<syn::Expr>(p.clone()) {
            Ok(syn::Expr::Paren(e)) if matches!(*e.expr, syn::Expr::Closure(_)) => ts(&e.expr.to_token_stream()),
            _ => ts(p),
        };
        parts.push(format!("O:custom_joiner({})", shown));
    }
    if let Some(p) = &j.transpose_results {
        parts.push(format!("O:transpose_results({})", p));
    }
    if let Some(p) = &j.lazy_branches {
        parts.push(format!("O:lazy_branches({})", p));
    }
    for b in &j.branches {
        let mut s = String::from("B:");
        if let Some(id) = b.id() {
            s.push_str(&format!("let{}{}=", if id.mutability.is_some() { "mut" } else { "" }, id.ident));
        }
        for m in b.members() {
            s.push_str(member_name(m.expr()));
            if *m.application_type() == ApplicationType::Deferred {
                s.push('~');
            }
            let wrap = *m.move_type() == MoveType::Wrap;
            if wrap {
                s.push_str(">>>");
            }
            s.push('(');
            if !wrap {
                let ops: Vec<String> = match m.expr() {
                    ActionExpr::Process(ProcessExpr::Collect(t)) => t.iter().flat_map(|a| a.iter()).map(|t| ts(t)).collect(),
                    ActionExpr::Process(ProcessExpr::Unzip(t)) => t.iter().flat_map(|a| a.iter()).map(|t| ts(t)).collect(),
                    e => e.inner_exprs().map(|v| v.iter().map(|e| ts(e)).collect()).unwrap_or_default(),
                };
                s.push_str(&ops.join(","));
            }
            s.push(')');
        }
        parts.push(s);
    }
    if let Some(h) = &j.handler {
        let k = if h.is_map() {
            "map"
        } else if h.is_then() {
            "then"
        } else {
            "and_then"
        };
        parts.push(format!("H:{}({})", k, ts(h.extract_expr())));
    }
    parts.join(";;")
}

// ---------------------------------------------------------------------------------------------
// independent operand-pool validator (own operator table, syn prefix parsing)

const OPS: &[&str] = &[
    "|>", "=>", "?>", "..", ">.", "->", "<|", "<=", "!>", "=>[", ">@>", "?|>@", "?|>", "|n>", "?&!>", "^^>", "^@", "?^@", "?@", ">^>", "<->", "??", "<<<", ">>>", "~", ",",
];
const HANDLERS: &[&str] = &["map", "then", "and_then"];

fn tok_matches(t: &TokenTree, c: char) -> bool {
    match (t, c) {
        (TokenTree::Punct(p), c) => p.as_char() == c,
        (TokenTree::Ident(i), 'n') => i == "n",
        (TokenTree::Group(g), '[') => g.delimiter() == Delimiter::Bracket,
        _ => false,
    }
}
fn starts_with_op(toks: &[TokenTree]) -> bool {
    for op in OPS {
        let cs: Vec<char> = op.chars().collect();
        if cs.len() <= toks.len() && cs.iter().zip(toks.iter()).all(|(c, t)| tok_matches(t, *c)) {
            return true;
        }
    }
    if toks.len() >= 3 {
        if let TokenTree::Ident(i) = &toks[0] {
            if HANDLERS.iter().any(|h| i == h) && tok_matches(&toks[1], '=') && tok_matches(&toks[2], '>') {
                return true;
            }
        }
    }
    false
}
fn admitted(text: &str, kind: &str) -> Result<(), String> {
    match admitted2(text, kind) {
        Ok(false) => Ok(()),
        Ok(true) => Err("ends with `?`".into()),
        Err(e) => Err(e),
    }
}
/// Ok(true): admitted on condition that the next operator does not start with `?`.
fn admitted2(text: &str, kind: &str) -> Result<bool, String> {
    let mut trailing_q = false;
    let stream: TokenStream = text.parse().map_err(|e| format!("lex: {:?}", e))?;
    let toks: Vec<TokenTree> = stream.clone().into_iter().collect();
    if toks.is_empty() {
        return Err("empty".into());
    }
    let parses = |s: TokenStream| -> bool {
        if kind == "type" {
            syn::parse2::<syn::Type>(s).is_ok()
        } else {
            syn::parse2::<syn::Expr>(s).is_ok()
        }
    };
    if kind == "member" && !is_member_access(text) {
        return Err("not a member access".into());
    }
    if !parses(stream) {
        return Err("does not parse as a whole".into());
    }
    if let TokenTree::Group(g) = &toks[0] {
        // only an *empty* bracket group merges with `=>` into the collect operator `=>[]` (an operand that starts with a
        // non-empty one used to be left out as well; that hid fixed finding 06dc7f8)
        if g.delimiter() == Delimiter::Bracket && g.stream().is_empty() {
            return Err("starts with an empty bracket group (merges with `=>` into `=>[]`)".into());
        }
    }
    if let Some(TokenTree::Punct(p)) = toks.last() {
        // a trailing `>` closes a generic argument list: every prefix that ends before it is unbalanced
        // and therefore never a complete operand, so it cannot create a split point with what follows.
        // a trailing `?` (try operator) only merges with an operator that itself starts with `?`: such
        // operands are admitted conditionally ("trail:?"), the generator keeps `?`-operators away from them
        if p.as_char() == '?' {
            trailing_q = true;
        } else if p.as_char() != '>' {
            return Err("ends with punctuation (could merge with the following operator)".into());
        }
    }
    for i in 0..toks.len() {
        if starts_with_op(&toks[i..]) {
            if i == 0 {
                return Err("starts with an operator spelling".into());
            }
            let prefix: TokenStream = toks[..i].iter().cloned().collect();
            if parses(prefix) {
                return Err(format!("top-level split point before token {}", i));
            }
        }
    }
    Ok(trailing_q)
}

// ---------------------------------------------------------------------------------------------

pub enum Class {
    Ok(String),
    /// first message, and the complete rendering of the diagnostic(s) as the macro would emit them
    Reject(String, String),
    ConfigReject(String),
    Panic(String),
    BadOutput(String),
}
fn panic_text(e: Box<dyn std::any::Any + Send>) -> String {
    if let Some(s) = e.downcast_ref::<&str>() {
        s.to_string()
    } else if let Some(s) = e.downcast_ref::<String>() {
        s.clone()
    } else {
        "<non-string payload>".into()
    }
}
const CONFIG_REJECTIONS: &[&str] = &[
    "`and_then` or `map` handler should be only provided for `try` `join!`",
    "`then` handler should be only provided for `join!` but not for `try` `join!`",
    "futures_crate_path should be only provided for `async` `join!`",
];
pub fn expand(text: &str, cfg: &str) -> Class {
    // `__g!( .. )` in a case text stands for a None-delimited group (an operand forwarded as a macro_rules fragment)
    let parsed = catch_unwind(AssertUnwindSafe(|| {
        if text.contains("__g") {
            match text.parse::<TokenStream>() {
                Ok(ts) => syn::parse2::<JoinInputDefault>(regroup(ts)),
                Err(_) => syn::parse_str::<JoinInputDefault>(text),
            }
        } else {
            syn::parse_str::<JoinInputDefault>(text)
        }
    }));
    let j = match parsed {
        Err(e) => return Class::Panic(format!("parser: {}", panic_text(e))),
        Ok(Err(e)) => return Class::Reject(e.to_string(), e.to_compile_error().to_string()),
        Ok(Ok(j)) => j,
    };
    match catch_unwind(AssertUnwindSafe(|| generate_join(&j, cfg_of(cfg)))) {
        // a panic of the generator is an internal panic whatever its message (until fix d63049e of /repo a handler / option that
        // does not fit the macro kind was reported by `.unwrap()`ing the generator's own error; that was whitelisted here,
        // which was too lenient)
        Err(e) => Class::Panic(format!("generator: {}", panic_text(e))),
        Ok(out) => {
            let s = out.to_string();
            // the generator's own rejection of a join that does not fit the macro kind: `{ extern crate core as __join_core; __join_core::compile_error!("..") }`
            let flat: String = s.chars().filter(|c| !c.is_whitespace()).collect();
            if flat.contains("__join_core::compile_error!(") {
                return match CONFIG_REJECTIONS.iter().find(|c| s.contains(*c)) {
                    Some(c) => Class::ConfigReject(c.to_string()),
                    None => Class::Reject(s.clone(), s),
                };
            }
            match syn::parse2::<syn::Expr>(out) {
                Ok(_) => Class::Ok(s),
                Err(e) => {
                    let m = format!("{} :: {}", e, s.chars().take(300).collect::<String>());
                    if has_type_ascription(&j) {
                        // an operand written with syn 1's legacy type-ascription syntax (`expr: Type`): no compiler accepts it,
                        // so no expansion of this input can be a valid expression, whatever the macro does
                        Class::BadOutput(format!("LEGACY-ASCRIPTION {}", m))
                    } else {
                        Class::BadOutput(m)
                    }
                }
            }
        }
    }
}
/// Does any operand (or the custom joiner) contain a type-ascription expression `expr: Type`? syn 1.0 still parses that
/// syntax, rustc does not: such an operand can never be part of a syntactically valid Rust expression.
fn has_type_ascription(j: &JoinInputDefault) -> bool {
    use syn::visit::Visit;
    struct V(bool);
    impl<'a> Visit<'a> for V {
        fn visit_expr_type(&mut self, _: &'a syn::ExprType) {
            self.0 = true;
        }
    }
    let mut v = V(false);
    for b in &j.branches {
        for m in b.members() {
            if let Some(es) = m.expr().inner_exprs() {
                for e in es {
                    v.visit_expr(e);
                }
            }
        }
    }
    if let Some(h) = &j.handler {
        v.visit_expr(h.extract_expr());
    }
    if let Some(cj) = &j.custom_joiner {
        if let Ok(e) = syn::parse2::<syn::Expr>(cj.clone()) {
            v.visit_expr(&e);
        }
    }
    v.0
}

/// Is `<receiver> . <operand>` a postfix chain hanging off the receiver (method calls, fields, indexing, calls, `?`,
/// `.await`) — i.e. syntactically a member access — rather than e.g. a cast or binary expression that merely
/// starts with one?
fn is_member_access(operand: &str) -> bool {
    fn postfix(e: &syn::Expr) -> bool {
        match e {
            syn::Expr::Path(p) => p.path.is_ident("__x"),
            syn::Expr::MethodCall(m) => postfix(&m.receiver),
            syn::Expr::Field(f) => postfix(&f.base),
            syn::Expr::Await(a) => postfix(&a.base),
            syn::Expr::Try(t) => postfix(&t.expr),
            syn::Expr::Index(i) => postfix(&i.expr),
            syn::Expr::Call(c) => postfix(&c.func),
            _ => false,
        }
    }
    format!("__x . {}", operand).parse::<TokenStream>().ok().and_then(|t| syn::parse2::<syn::Expr>(t).ok()).map(|e| postfix(&e)).unwrap_or(false)
}

/// Are all `..`/`>.` operands of the parsed input syntactically member accesses?
pub fn dots_are_members(text: &str) -> bool {
    match catch_unwind(AssertUnwindSafe(|| syn::parse_str::<JoinInputDefault>(text))) {
        Ok(Ok(j)) => j.branches.iter().all(|b| {
            b.members().iter().all(|m| match m.expr() {
                ActionExpr::Process(ProcessExpr::Dot([e])) => is_member_access(&e.to_token_stream().to_string()),
                _ => true,
            })
        }),
        _ => true,
    }
}

struct Report {
    cases: usize,
    viols: Vec<String>,
    nviol: usize,
    counters: HashMap<String, usize>,
    samples: Vec<String>,
    inconclusive: Vec<String>,
}
impl Report {
    fn new() -> Self {
        Report { cases: 0, viols: vec![], nviol: 0, counters: HashMap::new(), samples: vec![], inconclusive: vec![] }
    }
    fn bump(&mut self, k: &str) {
        *self.counters.entry(k.to_string()).or_insert(0) += 1;
    }
    fn viol(&mut self, id: &str, text: &str, cfg: &str, msg: String) {
        self.nviol += 1;
        if self.viols.len() < 30 {
            self.viols.push(format!("{{\"id\":{},\"cfg\":{},\"input\":{},\"msg\":{}}}", jesc(id), jesc(cfg), jesc(text), jesc(&msg)));
        }
    }
    fn write(&self, path: &str, wall: f64) {
        let mut cs: Vec<String> = self.counters.iter().map(|(k, v)| format!("{}:{}", jesc(k), v)).collect();
        cs.sort();
        let s = format!(
            "{{\"cases\":{},\"violation_count\":{},\"violations\":[{}],\"counters\":{{{}}},\"samples\":[{}],\"inconclusive\":[{}],\"wall_s\":{:.2}}}",
            self.cases,
            self.nviol,
            self.viols.join(","),
            cs.join(","),
            self.samples.join(","),
            self.inconclusive.iter().map(|s| jesc(s)).collect::<Vec<_>>().join(","),
            wall
        );
        std::fs::write(path, s).expect("write report");
    }
}

/// `__g!( tokens )` -> a None-delimited group around `tokens` (what a `$e:expr` / `$t:ty` fragment of a user
/// macro_rules looks like to a proc macro), recursively.
fn regroup(ts: TokenStream) -> TokenStream {
    let v: Vec<TokenTree> = ts.into_iter().collect();
    let mut out: Vec<TokenTree> = Vec::new();
    let mut i = 0;
    while i < v.len() {
        if i + 2 < v.len() {
            if let (TokenTree::Ident(id), TokenTree::Punct(p), TokenTree::Group(g)) = (&v[i], &v[i + 1], &v[i + 2]) {
                if id == "__g" && p.as_char() == '!' && g.delimiter() == Delimiter::Parenthesis {
                    out.push(TokenTree::Group(proc_macro2::Group::new(Delimiter::None, regroup(g.stream()))));
                    i += 3;
                    continue;
                }
            }
        }
        match &v[i] {
            TokenTree::Group(g) => {
                let mut ng = proc_macro2::Group::new(g.delimiter(), regroup(g.stream()));
                ng.set_span(g.span());
                out.push(TokenTree::Group(ng));
            }
            t => out.push(t.clone()),
        }
        i += 1;
    }
    out.into_iter().collect()
}

fn read_cases(path: &str) -> Vec<Vec<String>> {
    std::fs::read_to_string(path).expect("read cases").lines().filter(|l| !l.is_empty()).map(|l| l.split('\t').map(unesc).collect()).collect()
}

#[allow(dead_code)]
pub fn main() {
    std::panic::set_hook(Box::new(|_| {}));
    let args: Vec<String> = std::env::args().collect();
    let mode = args.get(1).map(|s| s.as_str()).unwrap_or("");
    let inp = args.get(2).cloned().unwrap_or_default();
    let out = args.get(3).cloned().unwrap_or_default();
    let t0 = Instant::now();
    let mut rep = Report::new();
    match mode {
        // id \t kind \t text  ->  admitted ids, one per line
        "pool" => {
            let mut ok = Vec::new();
            for c in read_cases(&inp) {
                match admitted2(&c[2], &c[1]) {
                    Ok(false) => ok.push(c[0].clone()),
                    Ok(true) => ok.push(format!("{}:q", c[0])),
                    Err(why) => eprintln!("pool: {} rejected: {} ({})", c[0], why, c[2]),
                }
            }
            std::fs::write(&out, ok.join("\n")).unwrap();
            return;
        }
        // id \t kind \t text  ->  lines "E\t<prefix>" / "T\t<prefix>": proper top-level prefixes of pool operands that
        // are themselves complete expressions / types (used to build histories that would expose any
        // memoisation of operand validity that is keyed too coarsely)
        "prefixes" => {
            let mut lines: Vec<String> = Vec::new();
            for c in read_cases(&inp) {
                let stream: TokenStream = match c[2].parse() {
                    Ok(s) => s,
                    Err(_) => continue,
                };
                let toks: Vec<TokenTree> = stream.into_iter().collect();
                for i in 1..toks.len() {
                    let prefix: TokenStream = toks[..i].iter().cloned().collect();
                    let text = prefix.to_string();
                    if admitted(&text, "expr").is_ok() {
                        lines.push(format!("E\t{}", text));
                    }
                    if admitted(&text, "type").is_ok() {
                        lines.push(format!("T\t{}", text));
                    }
                }
            }
            lines.sort();
            lines.dedup();
            std::fs::write(&out, lines.join("\n")).unwrap();
            return;
        }
        // id \t text \t expected canonical structure
        "rt" => {
            for c in read_cases(&inp) {
                rep.cases += 1;
                let (id, text, want) = (&c[0], &c[1], &c[2]);
                let grouped = id.starts_with('G');
                if grouped {
                    rep.bump("operands_as_none_delimited_groups");
                }
                match catch_unwind(AssertUnwindSafe(|| {
                    if grouped {
                        syn::parse2::<JoinInputDefault>(regroup(text.parse::<TokenStream>().expect("case lexes")))
                    } else {
                        syn::parse_str::<JoinInputDefault>(text)
                    }
                })) {
                    Err(e) => rep.viol(id, text, "", format!("parser panicked: {}", panic_text(e))),
                    Ok(Err(e)) => rep.viol(id, text, "", format!("a valid structure was rejected{}: {}", if grouped { " when its operands are None-delimited groups (macro_rules fragments)" } else { "" }, e)),
                    Ok(Ok(j)) => {
                        let got = canon(&j);
                        if &got != want {
                            rep.viol(id, text, "", format!("parsed structure differs\n  expected: {}\n  parsed:   {}", want, got));
                        } else if rep.samples.len() < 3 && rep.cases % 211 == 7 {
                            rep.samples.push(format!("{{\"input\":{},\"structure\":{}}}", jesc(text), jesc(&got)));
                        }
                    }
                }
            }
        }
        // id \t cfg \t label \t text      label: V | I:<why> | U
        "total" => {
            let cases = read_cases(&inp);
            // run on a worker so that a non-terminating expansion is noticed
            let (tx, rx) = mpsc::channel::<(usize, Class, bool)>();
            let cs = cases.clone();
            std::thread::spawn(move || {
                for (i, c) in cs.iter().enumerate() {
                    let cl = expand(&c[3], &c[1]);
                    // a `..` / `>.` operand that is not a member access used to be skipped here (it made the generator panic or
                    // emit `x.{..}`); that was a genuine defect, repaired in /repo (fixed: C15 1cc49f7) — every case is judged now
                    let dm = true;
                    if tx.send((i, cl, dm)).is_err() {
                        return;
                    }
                }
            });
            let mut next = 0usize;
            while next < cases.len() {
                match rx.recv_timeout(Duration::from_secs(60)) {
                    Ok((i, cl, dm)) => {
                        next = i + 1;
                        let c = &cases[i];
                        rep.cases += 1;
                        let (id, cfg, label, text) = (&c[0], &c[1], &c[2], &c[3]);
                        if !dm {
                            rep.bump("skipped_non_member_dot_operand");
                            continue;
                        }
                        match cl {
                            Class::Ok(s) => {
                                rep.bump("outcome_ok");
                                // conservation: whatever is accepted contains every marker identifier of the input exactly
                                // as often as the input does (an accepted input that lost or duplicated user tokens was
                                // not expanded as written: malformed input accepted silently)
                                if text.contains("__m") {
                                    fn count(ts: TokenStream, m: &mut HashMap<String, i64>, d: i64) {
                                        for t in ts {
                                            match t {
                                                TokenTree::Ident(i) => {
                                                    let s = i.to_string();
                                                    if s.starts_with("__m") {
                                                        *m.entry(s).or_insert(0) += d;
                                                    }
                                                }
                                                TokenTree::Group(g) => count(g.stream(), m, d),
                                                _ => {}
                                            }
                                        }
                                    }
                                    let mut m = HashMap::new();
                                    if let (Ok(i), Ok(o)) = (text.parse::<TokenStream>(), s.parse::<TokenStream>()) {
                                        // a marker that a mutation turned into a branch *name* (`let __m7 = ..`) legitimately
                                        // occurs once per destructuring pattern: names are not user expressions
                                        let mut names: Vec<String> = Vec::new();
                                        let toks: Vec<TokenTree> = i.clone().into_iter().collect();
                                        for w in 0..toks.len() {
                                            if let TokenTree::Ident(id) = &toks[w] {
                                                let s = id.to_string();
                                                if s.starts_with("__m") && w >= 1 {
                                                    let prev = |k: usize| if let Some(TokenTree::Ident(p)) = toks.get(w.wrapping_sub(k)) { p.to_string() } else { String::new() };
                                                    if prev(1) == "let" || (prev(1) == "mut" && prev(2) == "let") || prev(1) == "ref" {
                                                        names.push(s);
                                                    }
                                                }
                                            }
                                        }
                                        count(i, &mut m, 1);
                                        count(o, &mut m, -1);
                                        for n in &names {
                                            m.remove(n);
                                        }
                                        rep.bump("accepted_inputs_checked_for_token_conservation");
                                        let mut bad: Vec<String> = m.iter().filter(|(_, d)| **d != 0).map(|(k, d)| format!("{} {}", k, if *d > 0 { format!("dropped x{}", d) } else { format!("duplicated x{}", -d) })).collect();
                                        bad.sort();
                                        if !bad.is_empty() {
                                            rep.viol(id, text, cfg, format!("input accepted but user tokens are not carried into the expansion exactly once: {}", bad.join(", ")));
                                        }
                                    }
                                }
                                if label.starts_with("I:") {
                                    rep.viol(id, text, cfg, format!("structurally invalid input ({}) was accepted silently; output starts: {}", &label[2..], s.chars().take(160).collect::<String>()));
                                }
                            }
                            Class::Reject(m, _) => {
                                rep.bump("outcome_rejected_with_message");
                                if label.starts_with("I:") {
                                    rep.bump(&format!("rejected:{}", &label[2..]));
                                }
                                if m.trim().is_empty() {
                                    rep.viol(id, text, cfg, "rejected with an empty message".into());
                                }
                                if rep.samples.len() < 4 && label.starts_with("I:") && rep.cases % 97 == 3 {
                                    rep.samples.push(format!("{{\"input\":{},\"label\":{},\"diagnostic\":{}}}", jesc(text), jesc(label), jesc(&m)));
                                }
                            }
                            Class::ConfigReject(_) => {
                                rep.bump("outcome_config_rejection");
                                if label == "V" {
                                    // a valid structure under a config it is not meant for (generator labels those I:config)
                                    rep.viol(id, text, cfg, "valid input hit a configuration rejection".into());
                                }
                            }
                            Class::Panic(m) => {
                                rep.bump("outcome_internal_panic");
                                rep.viol(id, text, cfg, format!("internal panic instead of a diagnostic: {}", m));
                            }
                            Class::BadOutput(m) if m.starts_with("LEGACY-ASCRIPTION") => {
                                rep.bump("skipped_operand_in_legacy_type_ascription_syntax");
                            }
                            Class::BadOutput(m) => {
                                rep.bump("outcome_bad_output");
                                rep.viol(id, text, cfg, format!("output is not a syntactically valid expression: {}", m));
                            }
                        }
                    }
                    Err(_) => {
                        let c = &cases[next];
                        rep.viol(&c[0], &c[3], &c[1], "expansion did not terminate within 60 s".into());
                        break;
                    }
                }
            }
        }
        // id \t cfg \t text
        "det" => {
            let cases = read_cases(&inp);
            let n = cases.len();
            let mut reference: Vec<Option<String>> = vec![None; n];
            let render = |c: &Vec<String>| -> String {
                match expand(&c[2], &c[1]) {
                    Class::Ok(s) => format!("ok:{}", s),
                    Class::Reject(_, full) => format!("reject:{}", full),
                    Class::ConfigReject(m) => format!("cfgreject:{}", m),
                    Class::Panic(m) => format!("panic:{}", m),
                    Class::BadOutput(m) => format!("bad:{}", m),
                }
            };
            // sequential: 4 passes in different orders
            let mut order: Vec<usize> = (0..n).collect();
            for pass in 0..4u64 {
                let mut x = 0x9E3779B97F4A7C15u64.wrapping_mul(pass + 1);
                for i in (1..n).rev() {
                    x ^= x << 13;
                    x ^= x >> 7;
                    x ^= x << 17;
                    order.swap(i, (x % (i as u64 + 1)) as usize);
                }
                for &i in &order {
                    let s = render(&cases[i]);
                    rep.cases += 1;
                    match &reference[i] {
                        None => reference[i] = Some(s),
                        Some(r) if r != &s => rep.viol(&cases[i][0], &cases[i][2], &cases[i][1], format!("sequential pass {} produced a different expansion than an earlier pass", pass)),
                        _ => {}
                    }
                }
            }
            // concurrent: 16 threads x 4 rounds, each thread its own order
            let reference = std::sync::Arc::new(reference);
            let cases_a = std::sync::Arc::new(cases);
            let mut hs = Vec::new();
            for t in 0..16u64 {
                let reference = reference.clone();
                let cases_a = cases_a.clone();
                hs.push(std::thread::spawn(move || {
                    let mut bad: Vec<usize> = Vec::new();
                    let mut count = 0usize;
                    let n = cases_a.len();
                    let mut order: Vec<usize> = (0..n).collect();
                    for round in 0..4u64 {
                        let mut x = 0xD1B54A32D192ED03u64.wrapping_mul(t * 4 + round + 1);
                        for i in (1..n).rev() {
                            x ^= x << 13;
                            x ^= x >> 7;
                            x ^= x << 17;
                            order.swap(i, (x % (i as u64 + 1)) as usize);
                        }
                        for &i in &order {
                            let c = &cases_a[i];
                            let s = match expand(&c[2], &c[1]) {
                                Class::Ok(s) => format!("ok:{}", s),
                                Class::Reject(_, full) => format!("reject:{}", full),
                                Class::ConfigReject(m) => format!("cfgreject:{}", m),
                                Class::Panic(m) => format!("panic:{}", m),
                                Class::BadOutput(m) => format!("bad:{}", m),
                            };
                            count += 1;
                            if reference[i].as_ref() != Some(&s) {
                                bad.push(i);
                            }
                        }
                    }
                    (bad, count)
                }));
            }
            for h in hs {
                let (bad, count) = h.join().unwrap();
                rep.cases += count;
                *rep.counters.entry("concurrent_expansions".into()).or_insert(0) += count;
                for i in bad {
                    rep.viol(&cases_a[i][0], &cases_a[i][2], &cases_a[i][1], "a concurrent expansion differs from the sequential one".into());
                }
            }
            *rep.counters.entry("distinct_inputs".into()).or_insert(0) += n;
            if let Some(i) = (0..n).find(|i| reference[*i].as_ref().map(|s| s.starts_with("ok:")).unwrap_or(false)) {
                rep.samples.push(format!("{{\"input\":{},\"cfg\":{},\"expansion_prefix\":{}}}", jesc(&cases_a[i][2]), jesc(&cases_a[i][1]), jesc(&reference[i].as_ref().unwrap().chars().take(200).collect::<String>())));
            }
        }
        // id \t cfg \t text  ->  lines "id \t fnv64 of the rendered expansion" (one expansion per case, in reverse order
        // when a 4th argument `rev` is given). Compared across processes started in different environments.
        "digest" => {
            let mut cases = read_cases(&inp);
            if args.get(4).map(|s| s.as_str()) == Some("rev") {
                cases.reverse();
            }
            let mut lines = Vec::new();
            for c in &cases {
                let s = match expand(&c[2], &c[1]) {
                    Class::Ok(s) => format!("ok:{}", s),
                    Class::Reject(_, full) => format!("reject:{}", full),
                    Class::ConfigReject(m) => format!("cfgreject:{}", m),
                    Class::Panic(m) => format!("panic:{}", m),
                    Class::BadOutput(m) => format!("bad:{}", m),
                };
                let mut h: u64 = 0xcbf29ce484222325;
                for b in s.as_bytes() {
                    h ^= *b as u64;
                    h = h.wrapping_mul(0x100000001b3);
                }
                lines.push(format!("{}\t{:016x}\t{}", c[0], h, s.len()));
            }
            std::fs::write(&out, lines.join("\n")).unwrap();
            return;
        }
        // id \t cfg \t text \t marker,marker,...
        "marker" => {
            fn count(ts: TokenStream, m: &mut HashMap<String, usize>) {
                for t in ts {
                    match t {
                        TokenTree::Ident(i) => {
                            let s = i.to_string();
                            if s.starts_with("__m") {
                                *m.entry(s).or_insert(0) += 1;
                            }
                        }
                        TokenTree::Group(g) => count(g.stream(), m),
                        _ => {}
                    }
                }
            }
            for c in read_cases(&inp) {
                rep.cases += 1;
                let (id, cfg, text) = (&c[0], &c[1], &c[2]);
                let j = match catch_unwind(AssertUnwindSafe(|| syn::parse_str::<JoinInputDefault>(text))) {
                    Ok(Ok(j)) => j,
                    _ => {
                        rep.inconclusive.push(format!("{}: marker case did not parse", id));
                        continue;
                    }
                };
                let outs = match catch_unwind(AssertUnwindSafe(|| generate_join(&j, cfg_of(cfg)))) {
                    Ok(o) => o,
                    Err(_) => {
                        rep.bump("marker_case_config_rejected");
                        continue;
                    }
                };
                let mut m = HashMap::new();
                count(outs, &mut m);
                let mut bad = Vec::new();
                for mk in c[3].split(',').filter(|s| !s.is_empty()) {
                    let n = m.get(mk).copied().unwrap_or(0);
                    if n != 1 {
                        bad.push(format!("{} occurs {} times", mk, n));
                    }
                    *rep.counters.entry("markers_checked".into()).or_insert(0) += 1;
                }
                if !bad.is_empty() {
                    rep.viol(id, text, cfg, format!("user expressions are not quoted exactly once in the expansion: {}", bad.join(", ")));
                } else if rep.samples.len() < 2 && rep.cases % 301 == 5 {
                    rep.samples.push(format!("{{\"input\":{},\"markers\":{}}}", jesc(text), jesc(&c[3])));
                }
            }
        }
        // group \t cfg \t text  : all members of a group must expand to the same tokens
        "eq" => {
            let mut groups: HashMap<String, (String, String)> = HashMap::new();
            for c in read_cases(&inp) {
                rep.cases += 1;
                let (g, cfg, text) = (&c[0], &c[1], &c[2]);
                let s = match expand(text, cfg) {
                    Class::Ok(s) => s,
                    Class::Reject(m, _) => {
                        rep.viol(g, text, cfg, format!("a legal option order/subset was rejected: {}", m));
                        continue;
                    }
                    Class::ConfigReject(_) => {
                        rep.bump("config_rejection");
                        continue;
                    }
                    Class::Panic(m) | Class::BadOutput(m) => {
                        rep.viol(g, text, cfg, format!("expansion failed: {}", m));
                        continue;
                    }
                };
                let key = format!("{}|{}", g, cfg);
                match groups.get(&key) {
                    None => {
                        groups.insert(key, (s, text.clone()));
                    }
                    Some((r, rt)) if r != &s => rep.viol(g, text, cfg, format!("expands differently from the same options written as: {}", rt)),
                    _ => {}
                }
            }
            *rep.counters.entry("groups".into()).or_insert(0) += groups.len();
        }
        // self-check of the expansion under several threads, small: used under Miri
        "smoke" => {
            let inputs = [
                ("0", "Some(1) |> |v| v + 1 ~=> |v| Some(v), Some(2) ?> |v| *v > 1, then => |a, b| (a, b)"),
                ("3", "let a = Ok::<_,()>(1) => >>> |> |v| v <<< ~|> { let x = a; move |v| v }, Ok::<_,()>(2), map => |a, b| a + b"),
                ("6", "futures_crate_path(::fut) ready(1) |> |v| v, ready(2) ~-> |f| f"),
            ];
            let mut hs = Vec::new();
            for t in 0..4 {
                hs.push(std::thread::spawn(move || {
                    let mut v = Vec::new();
                    for k in 0..2 {
                        let (cfg, text) = inputs[(t + k) % inputs.len()];
                        if let Class::Ok(s) = expand(text, cfg) {
                            v.push(((t + k) % inputs.len(), s));
                        } else {
                            v.push(((t + k) % inputs.len(), String::from("<not ok>")));
                        }
                    }
                    v
                }));
            }
            let mut seen: HashMap<usize, String> = HashMap::new();
            for h in hs {
                for (i, s) in h.join().unwrap() {
                    rep.cases += 1;
                    if s == "<not ok>" {
                        rep.viol(&i.to_string(), inputs[i].1, inputs[i].0, "smoke input did not expand".into());
                    }
                    match seen.get(&i) {
                        None => {
                            seen.insert(i, s);
                        }
                        Some(r) if r != &s => rep.viol(&i.to_string(), inputs[i].1, inputs[i].0, "expansions differ between threads".into()),
                        _ => {}
                    }
                }
            }
            if out.is_empty() {
                println!("smoke cases={} violations={}", rep.cases, rep.nviol);
                std::process::exit(if rep.nviol == 0 { 0 } else { 1 });
            }
        }
        _ => {
            eprintln!("usage: lab pool|rt|total|det|marker|eq|smoke <in> <out>");
            std::process::exit(2);
        }
    }
    rep.write(&out, t0.elapsed().as_secs_f64());
}
