//! Program descriptions. Instances are emitted by gen/ as Rust statics next to the macro
//! invocations they describe; the model interprets them.
use crate::out::Out;
use std::future::Future;
use std::pin::Pin;

#[derive(Clone, Copy, PartialEq, Eq, Debug, Hash)]
pub enum Op {
    Src,
    /// async flavour: initial value awaited in the caller's block while the branch argument is built (`srca(ID).await`)
    SrcAwait,
    /// `->` on the plain value an awaited head yields (`tw(ID)`: Rv -> future); same events as `Then`
    ThenW,
    Map,
    AndThen,
    OrElse,
    MapErr,
    Inspect,
    Then,
    Or,
    /// Option flavour only: `?>` Option::filter
    Filter,
    /// wrappers: `op >>> inner <<<`
    WAndThen,
    WMap,
    WOrElse,
    WMapErr,
    WInspect,
    WFilter,
    /// first action inside a wrapper (`->` on the closure argument)
    ThenV,
    ThenVV,
    ThenF,
    ThenFF,
    ThenR,
    /// inside `?> >>>` (Option flavour): `&Val -> bool`
    ThenB,
}

#[derive(Debug)]
pub struct Snap {
    pub id: u16,
    pub branch: u8,
}

#[derive(Debug)]
pub struct Act {
    pub op: Op,
    pub id: u16,
    /// capture id if the operand is written as a block `{ cap(CID); snaps..; probe }`, else 0
    pub cap: u16,
    pub snaps: &'static [Snap],
    pub inner: &'static [Act],
}

#[derive(Debug)]
pub struct Branch {
    pub named: bool,
    pub steps: &'static [&'static [Act]],
}

#[derive(Clone, Copy, PartialEq, Eq, Debug, Hash)]
pub enum HK {
    Map,
    AndThen,
    Then,
}
#[derive(Debug)]
pub struct Hnd {
    pub id: u16,
    /// written after this many branches
    pub pos: u8,
}

#[derive(Clone, Copy, PartialEq, Eq, Debug, Hash)]
pub enum Joiner {
    None,
    /// `custom_joiner(jn!)` / `jna!`
    Stamp,
    /// `custom_joiner(jnl!) lazy_branches(true)`
    Lazy,
    /// `custom_joiner(jnt!) transpose_results(false)` / `jnta!`
    Transposed,
}

#[derive(Debug)]
pub struct Prog {
    pub id: u32,
    pub branches: &'static [Branch],
    pub handler: Option<Hnd>,
    pub joiner: Joiner,
    /// values are `Option<Val>` instead of `Result<Val, Fail>` (sync and thread kinds only)
    pub opt: bool,
    pub max_id: u16,
    /// free-form feature tags set by the generator ("profile", "rand", "names", "wrap", ...)
    pub tags: &'static str,
    /// DSL text of the sync and async renderings (for witnesses / evidence samples)
    pub text: &'static str,
}

#[derive(Clone, Copy, PartialEq, Eq, Debug, Hash, PartialOrd, Ord)]
pub enum Kind {
    Join,
    TryJoin,
    JoinSpawn,
    TryJoinSpawn,
    Spawn,
    TrySpawn,
    JoinAsync,
    TryJoinAsync,
    JoinAsyncSpawn,
    TryJoinAsyncSpawn,
    AsyncSpawn,
    TryAsyncSpawn,
}
impl Kind {
    pub fn is_try(self) -> bool {
        use Kind::*;
        matches!(self, TryJoin | TryJoinSpawn | TrySpawn | TryJoinAsync | TryJoinAsyncSpawn | TryAsyncSpawn)
    }
    pub fn is_async(self) -> bool {
        use Kind::*;
        matches!(self, JoinAsync | TryJoinAsync | JoinAsyncSpawn | TryJoinAsyncSpawn | AsyncSpawn | TryAsyncSpawn)
    }
    pub fn is_spawn(self) -> bool {
        use Kind::*;
        !matches!(self, Join | TryJoin | JoinAsync | TryJoinAsync)
    }
    pub fn is_threads(self) -> bool {
        self.is_spawn() && !self.is_async()
    }
    pub fn is_tasks(self) -> bool {
        self.is_spawn() && self.is_async()
    }
    /// The macro this one is an alias of (identity for non-aliases).
    pub fn alias_target(self) -> Kind {
        use Kind::*;
        match self {
            Spawn => JoinSpawn,
            TrySpawn => TryJoinSpawn,
            AsyncSpawn => JoinAsyncSpawn,
            TryAsyncSpawn => TryJoinAsyncSpawn,
            k => k,
        }
    }
    /// The plain (non-spawning) counterpart.
    pub fn plain(self) -> Kind {
        use Kind::*;
        match self.alias_target() {
            JoinSpawn => Join,
            TryJoinSpawn => TryJoin,
            JoinAsyncSpawn => JoinAsync,
            TryJoinAsyncSpawn => TryJoinAsync,
            k => k,
        }
    }
    pub fn name(self) -> &'static str {
        use Kind::*;
        match self {
            Join => "join",
            TryJoin => "try_join",
            JoinSpawn => "join_spawn",
            TryJoinSpawn => "try_join_spawn",
            Spawn => "spawn",
            TrySpawn => "try_spawn",
            JoinAsync => "join_async",
            TryJoinAsync => "try_join_async",
            JoinAsyncSpawn => "join_async_spawn",
            TryJoinAsyncSpawn => "try_join_async_spawn",
            AsyncSpawn => "async_spawn",
            TryAsyncSpawn => "try_async_spawn",
        }
    }
    pub const ALL: [Kind; 12] = [
        Kind::Join,
        Kind::TryJoin,
        Kind::JoinSpawn,
        Kind::TryJoinSpawn,
        Kind::Spawn,
        Kind::TrySpawn,
        Kind::JoinAsync,
        Kind::TryJoinAsync,
        Kind::JoinAsyncSpawn,
        Kind::TryJoinAsyncSpawn,
        Kind::AsyncSpawn,
        Kind::TryAsyncSpawn,
    ];
}

pub type LocalFut = Pin<Box<dyn Future<Output = Out>>>;
pub enum Run {
    Sync(fn() -> Out),
    Async(fn() -> LocalFut),
}
pub struct Case {
    pub prog: &'static Prog,
    pub kind: Kind,
    /// handler kind used in this instantiation (None if the program has no handler)
    pub hk: Option<HK>,
    pub run: Run,
}
