//! Runtime library linked into every generated probe program: event log, move-only
//! tokens, plan table, probes, gates, executors, reference model, monitors, driver.
pub mod alloc;
pub mod aprobes;
pub mod desc;
pub mod driver;
pub mod exec;
pub mod gate;
pub mod log;
pub mod model;
pub mod monitors;
pub mod out;
pub mod plan;
pub mod probes;
pub mod report;
pub mod rng;
pub mod tok;
pub mod zoo;
pub use futures as futures_reexport;

pub mod prelude {
    pub use crate::aprobes::*;
    pub use crate::desc::*;
    pub use crate::out::*;
    pub use crate::probes::*;
    pub use crate::tok::*;
    pub use crate::{idm, jn, jna, jnl, jnla, jnt, jnta, jntla};
}
