//! Shard driver: per property, enumerates plans (failure placements, panic positions, held
//! captures) and schedules (gate sets, release orders, batches, spurious polls, caller names)
//! for the compiled cases, runs them, applies the monitors and writes a JSON report.
use crate::desc::*;
use crate::exec::{self, Note, Outcome, RunRec, Sched};
use crate::log::{Ev, K};
use crate::model::{self, Exp, Meta, Role};
use crate::monitors;
use crate::plan::{Plan, FAIL, GATE, HOLD, PANIC, PANIC_EVAL};
use crate::report::{arr, esc, obj};
use crate::rng::{fnv, Rng};
use std::collections::{BTreeMap, HashMap, HashSet};
use std::time::Instant;

pub struct Args {
    pub prop: String,
    pub tier: String,
    pub seed: u64,
    pub shard: usize,
    pub nshards: usize,
    pub out: Option<String>,
    pub replay: Option<String>,
    pub trace: bool,
    pub budget_ms: u64,
    pub max_runs: u64,
}

fn parse_args() -> Args {
    let mut a = Args { prop: "C04".into(), tier: "quick".into(), seed: 0, shard: 0, nshards: 1, out: None, replay: None, trace: false, budget_ms: 0, max_runs: 0 };
    let v: Vec<String> = std::env::args().collect();
    let mut i = 1;
    while i < v.len() {
        let nxt = |i: usize| v.get(i + 1).cloned().unwrap_or_default();
        match v[i].as_str() {
            "--prop" => {
                a.prop = nxt(i);
                i += 1
            }
            "--tier" => {
                a.tier = nxt(i);
                i += 1
            }
            "--seed" => {
                a.seed = nxt(i).parse().unwrap_or(0);
                i += 1
            }
            "--shard" => {
                let s = nxt(i);
                let mut it = s.split('/');
                a.shard = it.next().unwrap().parse().unwrap();
                a.nshards = it.next().unwrap().parse().unwrap();
                i += 1
            }
            "--out" => {
                a.out = Some(nxt(i));
                i += 1
            }
            "--replay" => {
                a.replay = Some(nxt(i));
                i += 1
            }
            "--budget-ms" => {
                a.budget_ms = nxt(i).parse().unwrap_or(0);
                i += 1
            }
            "--max-runs" => {
                a.max_runs = nxt(i).parse().unwrap_or(0);
                i += 1
            }
            "--trace" => a.trace = true,
            _ => {}
        }
        i += 1;
    }
    a
}

#[derive(Clone)]
pub struct Viol {
    pub tag: String,
    pub msg: String,
    pub case: String,
    pub replay: String,
    pub text: String,
}

#[derive(Default)]
pub struct Stats {
    pub runs: u64,
    pub events: u64,
    pub cases: HashSet<(u32, Kind)>,
    pub nontrivial: HashSet<u64>,
    pub orders: HashSet<u64>,
    pub viols: Vec<Viol>,
    pub viol_count: u64,
    pub inconclusive: Vec<String>,
    pub samples: Vec<String>,
    pub cover: BTreeMap<String, u64>,
    pub max_held: usize,
    pub decisions: u64,
    pub polls: u64,
}
impl Stats {
    fn bump(&mut self, k: &str, n: u64) {
        *self.cover.entry(k.to_string()).or_insert(0) += n;
    }
}

fn plan_str(p: &Plan) -> String {
    p.iter().map(|(i, f)| format!("{}:{}", i, f)).collect::<Vec<_>>().join(",")
}
fn sched_str(s: &Sched) -> String {
    format!(
        "prio={};batch={};spurious={};caller={};grace={};drop={};mt={};hap={};ctx={};poll={};cancel={}",
        s.prio.iter().map(|x| x.to_string()).collect::<Vec<_>>().join("."),
        s.batch,
        s.spurious as u8,
        s.caller.clone().unwrap_or_else(|| "-".into()),
        s.grace_us,
        s.drop_unpolled as u8,
        s.mt as u8,
        s.hold_after_panic as u8,
        s.create_ctx,
        s.poll_ctx,
        s.cancel_at
    )
}
fn parse_plan(s: &str) -> Plan {
    s.split(',').filter(|x| !x.is_empty()).map(|x| {
        let mut it = x.split(':');
        (it.next().unwrap().parse().unwrap(), it.next().unwrap().parse().unwrap())
    }).collect()
}
fn parse_sched(s: &str) -> Sched {
    let mut sc = Sched { bound_ms: 2000, ..Default::default() };
    for kv in s.split(';') {
        let mut it = kv.splitn(2, '=');
        let (k, v) = (it.next().unwrap_or(""), it.next().unwrap_or(""));
        match k {
            "prio" => sc.prio = v.split('.').filter(|x| !x.is_empty()).map(|x| x.parse().unwrap()).collect(),
            "batch" => sc.batch = v.parse().unwrap_or(1),
            "spurious" => sc.spurious = v == "1",
            "caller" => sc.caller = if v == "-" { None } else { Some(v.to_string()) },
            "grace" => sc.grace_us = v.parse().unwrap_or(0),
            "drop" => sc.drop_unpolled = v == "1",
            "mt" => sc.mt = v == "1",
            "hap" => sc.hold_after_panic = v == "1",
            "ctx" => sc.create_ctx = v.parse().unwrap_or(0),
            "poll" => sc.poll_ctx = v.parse().unwrap_or(0),
            "cancel" => sc.cancel_at = v.parse().unwrap_or(0),
            _ => {}
        }
    }
    sc
}
fn hk_name(h: Option<HK>) -> &'static str {
    match h {
        None => "none",
        Some(HK::Map) => "map",
        Some(HK::AndThen) => "and_then",
        Some(HK::Then) => "then",
    }
}
fn case_name(c: &Case) -> String {
    format!("p{}:{}:{}", c.prog.id, c.kind.name(), hk_name(c.hk))
}

pub struct CaseCtx<'a> {
    pub case: &'a Case,
    pub idx: Vec<Option<Meta>>,
}

fn walk_acts<'a>(acts: &'a [Act], f: &mut dyn FnMut(&'a Act)) {
    for a in acts {
        f(a);
        walk_acts(a.inner, f);
    }
}
fn all_acts(prog: &Prog) -> Vec<&Act> {
    let mut v = Vec::new();
    for b in prog.branches {
        for s in b.steps {
            walk_acts(s, &mut |a| v.push(a));
        }
    }
    v
}

fn fail_ids(c: &Case) -> Vec<u16> {
    let mut v: Vec<u16> = all_acts(c.prog).iter().filter(|a| matches!(a.op, Op::Src | Op::SrcAwait | Op::ThenW | Op::AndThen | Op::OrElse | Op::Then | Op::Or | Op::ThenV | Op::ThenF | Op::Filter | Op::ThenB)).map(|a| a.id).collect();
    if c.hk == Some(HK::AndThen) {
        v.push(c.prog.handler.as_ref().unwrap().id);
    }
    v
}
fn gateable(c: &Case, a: &Act) -> bool {
    if c.kind.is_async() {
        matches!(a.op, Op::Src | Op::SrcAwait | Op::ThenW | Op::AndThen | Op::OrElse | Op::Then | Op::ThenV | Op::ThenF)
    } else {
        // a hoisted initial value is evaluated by the caller in the capture prefix: gating it would
        // (correctly) stop the whole step, not one branch
        !matches!(a.op, Op::Or | Op::WAndThen | Op::WMap | Op::WOrElse | Op::WMapErr | Op::WInspect | Op::WFilter) && !(a.op == Op::Src && a.cap != 0)
    }
}

/// Failure placements: all subsets up to 2^10, otherwise a seeded sample biased to few failures.
fn placements(ids: &[u16], rng: &mut Rng, budget: usize) -> Vec<Plan> {
    let n = ids.len();
    let mut out = Vec::new();
    if n <= 10 && (1usize << n) <= budget {
        for m in 0..(1usize << n) {
            out.push(ids.iter().enumerate().filter(|(i, _)| m >> i & 1 == 1).map(|(_, id)| (*id, FAIL)).collect());
        }
    } else {
        out.push(Vec::new());
        for id in ids {
            if out.len() < budget {
                out.push(vec![(*id, FAIL)]);
            }
        }
        let mut seen: HashSet<Vec<u16>> = HashSet::new();
        let mut tries = 0;
        while out.len() < budget && tries < budget * 4 {
            tries += 1;
            let k = 2 + rng.below(3.min(n.saturating_sub(1)).max(1));
            let mut pick: Vec<u16> = Vec::new();
            for _ in 0..k {
                let id = ids[rng.below(n)];
                if !pick.contains(&id) {
                    pick.push(id);
                }
            }
            pick.sort_unstable();
            if seen.insert(pick.clone()) {
                out.push(pick.into_iter().map(|i| (i, FAIL)).collect());
            }
        }
    }
    out
}

/// Reached gateable probes per (step, branch) under `exp`.
fn reached_gateables(c: &Case, exp: &Exp) -> Vec<(usize, usize, Vec<u16>)> {
    let acts = all_acts(c.prog);
    let by_id: HashMap<u16, &Act> = acts.iter().map(|a| (a.id, *a)).collect();
    let mut out = Vec::new();
    for (k, st) in exp.steps.iter().enumerate() {
        for b in &st.brs {
            if b.cut_in_caps {
                continue;
            }
            let mut g = Vec::new();
            if k == 0 {
                let src = &c.prog.branches[b.branch].steps[0][0];
                if gateable(c, src) && (b.evals.contains(&src.id) || b.cap_evals.contains(&src.id)) {
                    g.push(src.id);
                }
            }
            for (id, _) in &b.calls {
                if let Some(a) = by_id.get(id) {
                    if gateable(c, a) && !g.contains(id) {
                        g.push(*id);
                    }
                }
            }
            if !g.is_empty() {
                out.push((k, b.branch, g));
            }
        }
    }
    out
}

#[derive(Clone, Copy, PartialEq)]
enum GateMode {
    First,
    Last,
    Random,
    All,
    Subset,
}
fn choose_gates(c: &Case, exp: &Exp, mode: GateMode, rng: &mut Rng) -> Vec<(usize, Vec<u16>)> {
    // returns per step: gated ids
    let mut per_step: BTreeMap<usize, Vec<u16>> = BTreeMap::new();
    for (k, _, g) in reached_gateables(c, exp) {
        let e = per_step.entry(k).or_default();
        match mode {
            GateMode::First => e.push(g[0]),
            GateMode::Last => e.push(*g.last().unwrap()),
            GateMode::Random => e.push(g[rng.below(g.len())]),
            GateMode::All => e.extend(g),
            GateMode::Subset => {
                for x in g {
                    if rng.chance(1, 2) {
                        e.push(x);
                    }
                }
            }
        }
    }
    if c.kind.is_async() && matches!(c.hk, Some(HK::Then) | Some(HK::AndThen)) && exp.hnd.is_some() && (mode == GateMode::All || rng.chance(1, 2)) {
        per_step.entry(usize::MAX).or_default().push(c.prog.handler.as_ref().unwrap().id);
    }
    per_step.into_iter().filter(|(_, v)| !v.is_empty()).collect()
}

fn permutations(v: &[u16]) -> Vec<Vec<u16>> {
    if v.len() <= 1 {
        return vec![v.to_vec()];
    }
    let mut out = Vec::new();
    for i in 0..v.len() {
        let mut rest = v.to_vec();
        let x = rest.remove(i);
        for mut p in permutations(&rest) {
            p.insert(0, x);
            out.push(p);
        }
    }
    out
}

/// Release priorities: product of per-step permutations (exhaustive if small), else sampled.
fn prios(gates: &[(usize, Vec<u16>)], cap: usize, rng: &mut Rng) -> (Vec<Vec<u16>>, bool) {
    let mut total: usize = 1;
    for (_, g) in gates {
        let f: usize = (1..=g.len()).fold(1usize, |a, b| a.saturating_mul(b));
        total = total.saturating_mul(f.max(1));
    }
    if total <= cap && gates.iter().all(|(_, g)| g.len() <= 5) {
        let mut acc: Vec<Vec<u16>> = vec![vec![]];
        for (_, g) in gates {
            let ps = permutations(g);
            let mut next = Vec::new();
            for a in &acc {
                for p in &ps {
                    let mut x = a.clone();
                    x.extend(p);
                    next.push(x);
                }
            }
            acc = next;
        }
        (acc, true)
    } else {
        let mut out = Vec::new();
        let mut seen = HashSet::new();
        let mut tries = 0;
        while out.len() < cap && tries < cap * 4 {
            tries += 1;
            let mut x = Vec::new();
            for (_, g) in gates {
                let mut p = g.clone();
                rng.shuffle(&mut p);
                x.extend(p);
            }
            if seen.insert(x.clone()) {
                out.push(x);
            }
        }
        (out, false)
    }
}

fn with_gates(base: &Plan, gates: &[(usize, Vec<u16>)]) -> Plan {
    let mut p = base.clone();
    for (_, g) in gates {
        for id in g {
            p.push((*id, GATE));
        }
    }
    p
}

pub fn run_case(cx: &CaseCtx, exp: &Exp, plan: &Plan, sched: &Sched) -> RunRec {
    let idx = &cx.idx;
    let step_of = |id: u16| idx.get(id as usize).and_then(|m| m.as_ref()).filter(|m| m.step != usize::MAX).map(|m| m.step);
    let k = cx.case.kind;
    if k.is_threads() {
        exec::run_threads(cx.case, exp, plan, sched, &step_of)
    } else if k.is_async() && sched.poll_ctx != 0 {
        exec::run_async_ctx(cx.case, exp, plan, sched)
    } else if k.is_tasks() && sched.mt {
        exec::run_async_tasks_mt(cx.case, exp, plan, sched)
    } else if k.is_tasks() {
        exec::run_async_tasks(cx.case, exp, plan, sched)
    } else if k.is_async() {
        exec::run_async_plain(cx.case, exp, plan, sched)
    } else {
        exec::run_sync(cx.case, plan)
    }
}

fn trace_str(log: &[Ev]) -> String {
    log.iter().map(|e| format!("{}:{:?}({})@t{}{}", e.seq, e.k, e.id, e.thr, if e.h.is_empty() { String::new() } else { crate::out::show_hist(&e.h) })).collect::<Vec<_>>().join(" ")
}

fn accepts(prop: &str, tag: &str) -> bool {
    match prop {
        "C03" => matches!(tag, "C03" | "SEQ"),
        "C04" => matches!(tag, "RES" | "C13"),
        "C05" => matches!(tag, "RES"),
        "C06" => matches!(tag, "C06"),
        "C07" => matches!(tag, "C07"),
        "C08" => matches!(tag, "C08" | "HUNG" | "PANIC"),
        "C09" => matches!(tag, "C09" | "HUNG" | "PANIC"),
        "C10" => matches!(tag, "C10" | "PANIC"),
        "C11" => matches!(tag, "C11"),
        "C12" => matches!(tag, "C12" | "RES"),
        "C13" => matches!(tag, "C13" | "RES" | "PANIC"),
        "C16" => matches!(tag, "C16" | "RES"),
        "C18" => matches!(tag, "C18" | "HUNG"),
        _ => false,
    }
}

pub struct Engine<'a> {
    pub args: &'a Args,
    pub stats: Stats,
    pub rng: Rng,
    pub start: Instant,
    pub prev_run: Option<String>,
    pub stopped_noted: bool,
    pub escalations: usize,
}

impl<'a> Engine<'a> {
    fn out_of_budget(&self) -> bool {
        self.args.budget_ms > 0 && self.start.elapsed().as_millis() as u64 > self.args.budget_ms
    }
    /// Stop exploring: time budget used up, or the verdict is already clear (many violations).
    fn stop(&mut self) -> bool {
        if self.args.max_runs > 0 && self.stats.runs >= self.args.max_runs {
            return true;
        }
        if self.stats.viol_count >= 25 {
            if !self.stopped_noted {
                self.stopped_noted = true;
                self.stats.inconclusive.push("25 violations recorded in this shard; remaining workload skipped".into());
            }
            return true;
        }
        if self.out_of_budget() {
            if !self.stopped_noted {
                self.stopped_noted = true;
                self.stats.inconclusive.push("time budget of the shard reached; remaining workload skipped".into());
            }
            return true;
        }
        false
    }

    /// One monitored execution, including the bounded-progress re-runs for expiries.
    fn exec(&mut self, cx: &CaseCtx, plan: &Plan, sched: &Sched, nontrivial: bool) -> Option<(RunRec, Vec<Note>, Exp)> {
        if self.stop() {
            return None;
        }
        let exp = model::run(cx.case.prog, cx.case.kind, cx.case.hk, plan);
        let mut sched = sched.clone();
        if sched.bound_ms == 0 {
            sched.bound_ms = 2000;
        }
        if cfg!(miri) {
            // interpretation is slow; expiries are only ever "inconclusive" there
            sched.bound_ms = 600_000;
            sched.grace_us = sched.grace_us.min(50);
        }
        let t0 = Instant::now();
        if self.args.trace {
            println!("START {} plan={} sched={}", case_name(cx.case), plan_str(plan), sched_str(&sched));
        }
        let mut rec = run_case(cx, &exp, plan, &sched);
        if self.args.trace {
            println!("TIME {} us", t0.elapsed().as_micros());
        }
        // bounded-progress rule: an expiry only counts after three consistent expiries at growing bounds
        if let (Outcome::Hung(first), true) = (rec.outcome.clone(), self.escalations >= 2) {
            // the bounded-progress rule was already applied twice in this shard; further expiries are not
            // escalated (and therefore not judged)
            self.stats.inconclusive.push(format!("{} plan={}: expiry not escalated ({})", case_name(cx.case), plan_str(plan), first));
            self.stats.runs += 1;
            return None;
        }
        if let (Outcome::Hung(first), true) = (rec.outcome.clone(), sched.mt) {
            self.stats.inconclusive.push(format!("{}: expiry on the multi-thread runtime ({})", case_name(cx.case), first));
            self.stats.runs += 1;
            return None;
        }
        if let (Outcome::Hung(first), true) = (rec.outcome.clone(), cfg!(miri)) {
            self.stats.inconclusive.push(format!("{}: expiry under Miri ({})", case_name(cx.case), first));
            self.stats.runs += 1;
            return None;
        }
        if let Outcome::Hung(first) = rec.outcome.clone() {
            self.escalations += 1;
            let mut consistent = true;
            for b in [10_000u64, 30_000] {
                let mut s2 = sched.clone();
                s2.bound_ms = b;
                let r2 = run_case(cx, &exp, plan, &s2);
                match &r2.outcome {
                    Outcome::Hung(_) => {
                        rec = r2;
                    }
                    _ => {
                        consistent = false;
                        rec = r2;
                        break;
                    }
                }
            }
            if !consistent {
                self.stats.inconclusive.push(format!("{} plan={} sched={}: expiry at 2s not reproduced at a larger bound ({})", case_name(cx.case), plan_str(plan), sched_str(&sched), first));
            }
        }
        if !rec.stale.is_empty() {
            self.stats.inconclusive.push(format!("{} plan={}: {} event(s) of a straggler thread from an earlier run were logged during this run and ignored: {:?}", case_name(cx.case), plan_str(plan), rec.stale.len(), rec.stale.iter().map(|e| (e.k, e.id, e.thr, crate::log::thread_name(e.thr))).collect::<Vec<_>>()));
            if let Some(prev) = &self.prev_run {
                self.stats.inconclusive.push(format!("   previous run: {}", prev));
            }
        }
        self.prev_run = Some(format!("{} plan={} sched={} outcome={:?} quiesced={} live={}", case_name(cx.case), plan_str(plan), sched_str(&sched), rec.outcome, rec.quiesced, crate::tok::live()));
        self.stats.runs += 1;
        self.stats.events += rec.log.len() as u64;
        self.stats.cases.insert((cx.case.prog.id, cx.case.kind));
        self.stats.max_held = self.stats.max_held.max(rec.max_held);
        self.stats.decisions += rec.decisions as u64;
        self.stats.polls += rec.polls as u64;
        self.stats.orders.insert(monitors::order_hash(&rec.log) ^ fnv(case_name(cx.case).as_bytes()));
        if !rec.quiesced && matches!(rec.outcome, Outcome::Hung(_)) {
            self.stats.inconclusive.push(format!("{}: ledger not empty after an expiry; later runs in this shard may see stragglers", case_name(cx.case)));
        }
        let notes = monitors::check(cx.case, &cx.idx, &exp, &rec);
        let key = fnv(format!("{}|{}|{}", case_name(cx.case), plan_str(plan), sched_str(&sched)).as_bytes());
        if nontrivial && !rec.log.is_empty() {
            self.stats.nontrivial.insert(key);
        }
        let mut any = false;
        for n in &notes {
            if accepts(&self.args.prop, n.prop) {
                any = true;
                self.stats.viol_count += 1;
                if self.stats.viols.len() < 40 {
                    self.stats.viols.push(Viol {
                        tag: n.prop.to_string(),
                        msg: n.msg.clone(),
                        case: case_name(cx.case),
                        replay: format!("--replay {}|{}|{}", case_name(cx.case), plan_str(plan), sched_str(&sched)),
                        text: cx.case.prog.text.to_string(),
                    });
                }
            }
        }
        if self.args.trace {
            println!("CASE {} plan={} sched={}", case_name(cx.case), plan_str(plan), sched_str(&sched));
            println!("  text: {}", cx.case.prog.text);
            println!("  outcome: {:?}", rec.outcome);
            println!("  expect: {:?} panics={} fail_step={:?}", exp.outs.iter().map(|o| o.show()).collect::<Vec<_>>(), exp.panics, exp.fail_step);
            println!("  trace: {}", trace_str(&rec.log));
            for n in &notes {
                println!("  NOTE[{}] {}", n.prop, n.msg);
            }
        }
        let concurrent_prop = matches!(self.args.prop.as_str(), "C03" | "C08" | "C09");
        let good_sample = !concurrent_prop || rec.decisions >= 2;
        if good_sample && ((self.stats.samples.len() < 3 && nontrivial && !any && self.stats.runs % 97 == 1) || (self.stats.samples.is_empty() && nontrivial)) {
            self.stats.samples.push(obj(&[
                ("case", esc(&case_name(cx.case))),
                ("program", esc(cx.case.prog.text)),
                ("plan", esc(&plan_str(plan))),
                ("schedule", esc(&sched_str(&sched))),
                ("outcome", esc(&format!("{:?}", rec.outcome))),
                ("trace", esc(&trace_str(&rec.log[..rec.log.len().min(40)]))),
            ]));
        }
        Some((rec, notes, exp))
    }

    fn depth_profile(c: &Case) -> Vec<usize> {
        c.prog.branches.iter().map(|b| b.steps.len()).collect()
    }

    pub fn run_prop(&mut self, cases: &[CaseCtx]) {
        let prop = self.args.prop.clone();
        let thorough = self.args.tier == "thorough";
        match prop.as_str() {
            "C07" => return self.run_c07(cases),
            _ => {}
        }
        for cx in cases {
            if cx.case.prog.tags.split(',').any(|t| t == "joiner") && prop != "C16" && prop != "C10" && prop != "C18" {
                // custom joiners are harness code whose behaviour differs by macro kind; they are judged by C16
                // (and by the multiset / panic monitors), not by the other result monitors
                continue;
            }
            if self.stop() {
                break;
            }
            let c = cx.case;
            let kind = c.kind;
            let tags = c.prog.tags;
            let prof = Self::depth_profile(c);
            let n = prof.len();
            let unequal = prof.iter().any(|d| *d != prof[0]);
            let fids = fail_ids(c);
            let has = |t: &str| tags.split(',').any(|x| x == t);
            let mut rng = Rng::new(self.args.seed ^ fnv(case_name(c).as_bytes()));
            let default = Sched { bound_ms: 2000, caller: Some("main".into()), ..Default::default() };
            match prop.as_str() {
                "C04" => {
                    let mut plans: Vec<Plan> = vec![vec![]];
                    if !kind.is_try() {
                        for _ in 0..(if thorough { 6 } else { 2 }) {
                            if !fids.is_empty() {
                                plans.push(vec![(fids[rng.below(fids.len())], FAIL)]);
                            }
                        }
                    }
                    for p in plans {
                        self.exec(cx, &p, &default, unequal || n >= 3);
                    }
                    self.stats.bump(&format!("profile:{:?}", prof), 1);
                }
                "C05" | "C06" => {
                    if !kind.is_try() {
                        continue;
                    }
                    let budget = if thorough { 1024 } else if has("profile") { 48 } else { 128 };
                    for p in placements(&fids, &mut rng, budget) {
                        let exp = model::run(c.prog, kind, c.hk, &p);
                        let nfail_last = exp.fail_step.map(|k| exp.steps[k].brs.iter().filter(|b| b.end.as_ref().map(|e| !e.ok).unwrap_or(false)).count()).unwrap_or(0);
                        let maxd = prof.iter().copied().max().unwrap_or(1);
                        let nt = exp.fail_step.map(|k| k + 1 < maxd).unwrap_or(false) || nfail_last >= 2;
                        if kind.is_async() {
                            // several completion orders per placement
                            let gates = choose_gates(c, &exp, GateMode::Random, &mut rng);
                            let (ps, _) = prios(&gates, if thorough { 6 } else { 3 }, &mut rng);
                            let gp = with_gates(&p, &gates);
                            for pr in ps {
                                let s = Sched { prio: pr, batch: 1, ..default.clone() };
                                self.exec(cx, &gp, &s, nt);
                            }
                        } else if kind.is_threads() && rng.chance(1, 4) {
                            let gates = choose_gates(c, &exp, GateMode::Last, &mut rng);
                            let (ps, _) = prios(&gates, 2, &mut rng);
                            let gp = with_gates(&p, &gates);
                            for pr in ps {
                                let s = Sched { prio: pr, batch: 1, ..default.clone() };
                                self.exec(cx, &gp, &s, nt);
                            }
                        } else {
                            self.exec(cx, &p, &default, nt);
                        }
                    }
                }
                "C03" => {
                    if prof.iter().copied().max().unwrap_or(1) < 2 {
                        continue;
                    }
                    if kind.is_tasks() {
                        // stress: real parallelism on a multi-thread runtime, gates released as they arrive
                        let exp0 = model::run(c.prog, kind, c.hk, &vec![]);
                        for _ in 0..(if thorough { 6 } else { 1 }) {
                            let gates = choose_gates(c, &exp0, GateMode::Subset, &mut rng);
                            let (ps, _) = prios(&gates, 1, &mut rng);
                            let mut gp = with_gates(&vec![], &gates);
                            for a in all_acts(c.prog) {
                                if rng.chance(1, 3) {
                                    gp.push((a.id, crate::plan::DELAY));
                                }
                            }
                            let s = Sched { prio: ps.into_iter().next().unwrap_or_default(), mt: true, ..default.clone() };
                            if self.exec(cx, &gp, &s, n >= 2).is_some() {
                                self.stats.bump("multi_thread_runtime_stress_runs", 1);
                            }
                        }
                    }
                    let mut plans: Vec<Plan> = vec![vec![]];
                    for _ in 0..(if thorough { 4 } else { 1 }) {
                        if !fids.is_empty() {
                            plans.push(vec![(fids[rng.below(fids.len())], FAIL)]);
                        }
                    }
                    for p in plans {
                        let exp = model::run(c.prog, kind, c.hk, &p);
                        let nt = n >= 2 && exp.steps.len() >= 2;
                        if !kind.is_spawn() && !kind.is_async() {
                            self.exec(cx, &p, &default, nt);
                            continue;
                        }
                        for mode in [GateMode::Last, GateMode::Random] {
                            let gates = choose_gates(c, &exp, mode, &mut rng);
                            let cap = if thorough { 64 } else { 8 };
                            let (ps, exhaustive) = prios(&gates, cap, &mut rng);
                            if exhaustive {
                                self.stats.bump("cases_with_exhaustive_release_orders", 1);
                            }
                            let gp = with_gates(&p, &gates);
                            for pr in ps {
                                let s = Sched { prio: pr, batch: 1, grace_us: if kind.is_threads() { 300 } else { 0 }, ..default.clone() };
                                let rec = match self.exec(cx, &gp, &s, nt) {
                                    Some(r) => r.0,
                                    None => continue,
                                };
                                if rec.max_held >= 1 && nt {
                                    self.stats.bump("runs_with_branch_held_across_sibling_step_end", 1);
                                }
                            }
                        }
                    }
                }
                "C08" => {
                    if !kind.is_threads() {
                        continue;
                    }
                    // fault-free plan plus (try kinds) single-failure placements: on a failing step the caller still has
                    // to wait for every thread of that step, also for those with a higher index than the failing branch
                    let mut plans: Vec<Plan> = vec![vec![]];
                    if kind.is_try() && !fids.is_empty() {
                        for _ in 0..(if thorough { 6 } else { 2 }) {
                            plans.push(vec![(fids[rng.below(fids.len())], FAIL)]);
                        }
                    }
                    for (pi, p) in plans.iter().enumerate() {
                        let exp = model::run(c.prog, kind, c.hk, p);
                        let callers = [Some("main".to_string()), Some(format!("w_{}", c.prog.id % 10)), None];
                        for (ci, caller) in callers.iter().enumerate() {
                            if pi > 0 && ci != pi % 3 {
                                continue;
                            }
                            let mode = if pi > 0 { GateMode::All } else if ci == 0 { GateMode::First } else { GateMode::Last };
                            let gates = choose_gates(c, &exp, mode, &mut rng);
                            let (ps, exhaustive) = prios(&gates, if thorough { 48 } else { 6 }, &mut rng);
                            if exhaustive {
                                self.stats.bump("cases_with_exhaustive_release_orders", 1);
                            }
                            let gp = with_gates(p, &gates);
                            for pr in ps {
                                let s = Sched { prio: pr, batch: 1, grace_us: 200, caller: caller.clone(), ..default.clone() };
                                if let Some((rec, _, _)) = self.exec(cx, &gp, &s, n >= 2) {
                                    self.stats.bump(&format!("arrival_set_size:{}", rec.max_held), 1);
                                    if pi > 0 {
                                        self.stats.bump("gated_runs_with_a_failing_branch", 1);
                                    }
                                }
                            }
                        }
                    }
                    // ungated runs with random delays: uncontrolled interleavings
                    for _ in 0..(if thorough { 8 } else { 2 }) {
                        let p: Plan = all_acts(c.prog).iter().filter(|_| rng.chance(1, 2)).map(|a| (a.id, crate::plan::DELAY)).collect();
                        self.exec(cx, &p, &default, n >= 2);
                    }
                }
                "C09" => {
                    if !kind.is_async() {
                        continue;
                    }
                    if kind.is_tasks() {
                        let exp0 = model::run(c.prog, kind, c.hk, &vec![]);
                        for _ in 0..(if thorough { 6 } else { 1 }) {
                            let gates = choose_gates(c, &exp0, GateMode::All, &mut rng);
                            let (ps, _) = prios(&gates, 1, &mut rng);
                            let gp = with_gates(&vec![], &gates);
                            let s = Sched { prio: ps.into_iter().next().unwrap_or_default(), mt: true, ..default.clone() };
                            if self.exec(cx, &gp, &s, n >= 2).is_some() {
                                self.stats.bump("multi_thread_runtime_stress_runs", 1);
                            }
                        }
                    }
                    // laziness: create and drop unpolled
                    self.exec(cx, &vec![], &Sched { drop_unpolled: true, ..default.clone() }, false);
                    // polling contexts: ungated runs, the future is polled by executors other than the controlled drivers
                    // (fault-free plan and one single-failure plan)
                    if !cfg!(miri) {
                        let ctxs: &[u8] = if kind.is_tasks() { &[1, 2, 3, 4, 5, 6, 10, 11] } else { &[7, 8, 9] };
                        let mut cplans: Vec<Plan> = vec![vec![]];
                        if !fids.is_empty() {
                            cplans.push(vec![(fids[rng.below(fids.len())], FAIL)]);
                        }
                        for (ci, pc) in ctxs.iter().enumerate() {
                            let p = &cplans[ci % cplans.len()];
                            let s = Sched { poll_ctx: *pc, bound_ms: 10_000, ..default.clone() };
                            if self.exec(cx, p, &s, n >= 2).is_some() {
                                self.stats.bump(&format!("runs_under_polling_context_{}", pc), 1);
                            }
                        }
                    }
                    let mut plans: Vec<Plan> = vec![vec![]];
                    for _ in 0..(if thorough { 3 } else { 1 }) {
                        if !fids.is_empty() {
                            plans.push(vec![(fids[rng.below(fids.len())], FAIL)]);
                        }
                    }
                    for p in plans {
                        let exp = model::run(c.prog, kind, c.hk, &p);
                        for mode in [GateMode::All, GateMode::First, GateMode::Subset] {
                            let gates = choose_gates(c, &exp, mode, &mut rng);
                            let ngates: usize = gates.iter().map(|g| g.1.len()).sum();
                            let (ps, exhaustive) = prios(&gates, if thorough { 48 } else { 6 }, &mut rng);
                            if exhaustive {
                                self.stats.bump("cases_with_exhaustive_release_orders", 1);
                            }
                            let gp = with_gates(&p, &gates);
                            for (pi, pr) in ps.into_iter().enumerate() {
                                let batch = [1usize, 1, 2, 0][pi % 4];
                                let spurious = pi % 3 == 1;
                                // task kinds: the future is created in turn inside the polling runtime, in plain synchronous
                                // code, and inside the context of another (idle) runtime; it is always polled on ours
                                let create_ctx = if kind.is_tasks() { (pi % 3) as u8 } else { 0 };
                                let s = Sched { prio: pr, batch, spurious, create_ctx, ..default.clone() };
                                if let Some((rec, _, _)) = self.exec(cx, &gp, &s, ngates >= 2) {
                                    if create_ctx != 0 {
                                        self.stats.bump(&format!("task_kind_runs_with_future_created_in_context_{}", create_ctx), 1);
                                    }
                                    if rec.decisions >= 2 {
                                        self.stats.bump("runs_with_2plus_release_decisions", 1);
                                    }
                                }
                            }
                        }
                    }
                }
                "C10" | "C11" | "C12" | "C13" | "C16" => {
                    let want = match prop.as_str() {
                        "C11" => has("cap"),
                        "C12" => has("names"),
                        "C13" => c.hk.is_some(),
                        "C16" => has("joiner"),
                        _ => true,
                    };
                    if !want {
                        continue;
                    }
                    let budget = if thorough { 256 } else if has("profile") { 6 } else { 24 };
                    let caps: Vec<u16> = all_acts(c.prog).iter().filter(|a| a.cap != 0).map(|a| a.cap).collect();
                    for (pi, p) in placements(&fids, &mut rng, budget).into_iter().enumerate() {
                        let exp = model::run(c.prog, kind, c.hk, &p);
                        let nt = match prop.as_str() {
                            "C10" => exp.steps.iter().map(|s| s.brs.iter().map(|b| b.calls.len()).sum::<usize>()).sum::<usize>() >= 3,
                            "C11" => exp.steps.iter().any(|s| s.brs.iter().filter(|b| !b.caps.is_empty()).count() >= 2) || caps.len() >= 2,
                            "C12" => exp.steps.iter().any(|s| s.brs.iter().any(|b| !b.snaps.is_empty())),
                            "C13" => n >= 2,
                            "C16" => exp.steps.iter().any(|s| s.joiner_arity.is_some()),
                            _ => true,
                        };
                        let mut p2 = p.clone();
                        if prop == "C11" && kind.is_spawn() && !caps.is_empty() {
                            p2.push((caps[pi % caps.len()], HOLD));
                        }
                        if (kind.is_async() || kind.is_threads()) && pi % 2 == 1 {
                            let gates = choose_gates(c, &exp, GateMode::Random, &mut rng);
                            let (ps, _) = prios(&gates, 2, &mut rng);
                            let gp = with_gates(&p2, &gates);
                            for pr in ps {
                                let s = Sched { prio: pr, batch: 1, ..default.clone() };
                                self.exec(cx, &gp, &s, nt);
                            }
                        } else {
                            self.exec(cx, &p2, &default, nt);
                        }
                        // cancellation (C10): the macro's future is dropped at every quiescent pending point of a fully gated
                        // run in turn; whatever it owned has to be dropped with it, what ran before is a prefix of the model
                        if prop == "C10" && kind.is_async() && pi < (if thorough { 4 } else { 2 }) {
                            let gates = choose_gates(c, &exp, GateMode::All, &mut rng);
                            let ngates: usize = gates.iter().map(|g| g.1.len()).sum();
                            let (ps, _) = prios(&gates, 1, &mut rng);
                            let gp = with_gates(&p2, &gates);
                            let pr = ps.into_iter().next().unwrap_or_default();
                            let maxc = ngates.min(if thorough { 12 } else { 5 });
                            for at in 1..=maxc {
                                let s = Sched { prio: pr.clone(), batch: 1, cancel_at: at, ..default.clone() };
                                if let Some((rec, _, _)) = self.exec(cx, &gp, &s, nt) {
                                    if rec.outcome == Outcome::Cancelled {
                                        self.stats.bump("cancellation_runs_future_dropped_at_a_pending_point", 1);
                                        if rec.max_held >= 2 || at >= 2 {
                                            self.stats.bump("cancellation_runs_with_values_in_flight", 1);
                                        }
                                    } else {
                                        // the future completed before the n-th decision point: later points do not exist either
                                        break;
                                    }
                                }
                            }
                        }
                        // handlers (and joiners) under the other polling contexts: the all-success plan and one more
                        if matches!(prop.as_str(), "C13" | "C16") && kind.is_async() && pi < 2 && !cfg!(miri) {
                            let ctxs: &[u8] = if kind.is_tasks() { &[1, 4, 6, 2] } else { &[7, 8] };
                            for pc in ctxs {
                                let s = Sched { poll_ctx: *pc, bound_ms: 10_000, ..default.clone() };
                                if self.exec(cx, &p, &s, nt).is_some() {
                                    self.stats.bump(&format!("runs_under_polling_context_{}", pc), 1);
                                }
                            }
                        }
                    }
                }
                "C18" => {
                    let mut positions: Vec<(u16, u8)> = Vec::new();
                    for a in all_acts(c.prog) {
                        if a.id != 0 {
                            positions.push((a.id, PANIC));
                            if !matches!(a.op, Op::Src | Op::SrcAwait | Op::Or) {
                                positions.push((a.id, PANIC_EVAL));
                            }
                        }
                        if a.cap != 0 {
                            positions.push((a.cap, PANIC));
                        }
                    }
                    if c.hk.is_some() {
                        let h = c.prog.handler.as_ref().unwrap().id;
                        positions.push((h, PANIC));
                        positions.push((h, PANIC_EVAL));
                    }
                    let limit = if thorough { usize::MAX } else if has("profile") { 6 } else { 40 };
                    if positions.len() > limit {
                        rng.shuffle(&mut positions);
                        positions.truncate(limit);
                    }
                    let mut ctx_panic_runs = 0usize;
                    for (id, fl) in positions {
                        let mut p: Plan = vec![(id, fl)];
                        // sometimes combine with a failure elsewhere
                        if rng.chance(1, 4) && !fids.is_empty() {
                            let f = fids[rng.below(fids.len())];
                            if f != id {
                                p.push((f, FAIL));
                            }
                        }
                        let exp = model::run(c.prog, kind, c.hk, &p);
                        let nt = exp.panics && exp.panic_at.map(|(k, _)| k != usize::MAX && exp.steps[k].brs.len() >= 2).unwrap_or(false);
                        if !exp.panics {
                            self.stats.bump("panic_positions_not_reached_under_plan", 1);
                        }
                        self.exec(cx, &p, &default, nt);
                        if kind.is_tasks() && exp.panics && !exp.panic_optional && ctx_panic_runs < 6 && !cfg!(miri) {
                            // the panic also has to arrive when tokio itself polls the macro's future: on a multi-thread
                            // runtime, and next to a sibling that exhausts the task's cooperative-scheduling budget
                            ctx_panic_runs += 1;
                            for pc in [10u8, 1, 11] {
                                let s = Sched { poll_ctx: pc, bound_ms: 10_000, ..default.clone() };
                                if self.exec(cx, &p, &s, nt).is_some() {
                                    self.stats.bump(&format!("panic_runs_under_polling_context_{}", pc), 1);
                                }
                            }
                        }
                        if kind.is_threads() && nt && !exp.panic_optional {
                            // thread handles are joined in branch order: the panic must reach the caller while the
                            // threads of higher-index siblings are still held at their gates
                            let gates = choose_gates(c, &exp, GateMode::All, &mut rng);
                            let (ps, _) = prios(&gates, 2, &mut rng);
                            let gp = with_gates(&p, &gates);
                            for pr in ps {
                                let s = Sched { prio: pr, batch: 1, hold_after_panic: true, ..default.clone() };
                                if let Some((rec, _, _)) = self.exec(cx, &gp, &s, nt) {
                                    if rec.held_at_result >= 1 && matches!(rec.outcome, Outcome::Panicked(_)) {
                                        self.stats.bump("panic_runs_with_higher_sibling_threads_held", 1);
                                    }
                                }
                            }
                        }
                        if kind.is_async() && nt && !exp.panic_optional {
                            // the panic must reach the caller while sibling branches of that step are still pending
                            let gates = choose_gates(c, &exp, GateMode::All, &mut rng);
                            let (ps, _) = prios(&gates, 2, &mut rng);
                            let gp = with_gates(&p, &gates);
                            for pr in ps {
                                let s = Sched { prio: pr, batch: 1, ..default.clone() };
                                if let Some((rec, _, _)) = self.exec(cx, &gp, &s, nt) {
                                    if rec.max_held >= 1 {
                                        self.stats.bump("panic_runs_with_sibling_gates_held", 1);
                                    }
                                }
                            }
                        }
                        let role = cx.idx[id as usize].as_ref().map(|m| match m.role {
                            Role::Probe(_) => {
                                if fl == PANIC {
                                    "callback_or_value"
                                } else {
                                    "operand_expression"
                                }
                            }
                            Role::Cap => "capture",
                            Role::Snap => "snap",
                            Role::Handler => "handler",
                        });
                        if exp.panics {
                            self.stats.bump(&format!("panic_in:{}", role.unwrap_or("?")), 1);
                        }
                    }
                }
                _ => {}
            }
        }
    }

    /// C07: same program under the plain macro, its spawn variant and the alias.
    fn run_c07(&mut self, cases: &[CaseCtx]) {
        let thorough = self.args.tier == "thorough";
        let mut by_prog: BTreeMap<u32, Vec<&CaseCtx>> = BTreeMap::new();
        for cx in cases {
            if cx.case.prog.tags.split(',').any(|t| t == "joiner") {
                continue;
            }
            by_prog.entry(cx.case.prog.id).or_default().push(cx);
        }
        let default = Sched { bound_ms: 2000, caller: Some("main".into()), ..Default::default() };
        for (_, group) in by_prog {
            if self.stop() {
                break;
            }
            let mut rng = Rng::new(self.args.seed ^ group[0].case.prog.id as u64);
            // placements are taken from the first case (failure-capable ids do not depend on the kind,
            // except the and_then handler which only exists in try instantiations)
            let ids = fail_ids(group[0].case);
            let mut plans = placements(&ids, &mut rng, if thorough { 128 } else { 12 });
            // sequential and thread kinds: a panic at some position, alone or together with a failure elsewhere — "the same
            // result" includes "both panic" (e.g. a branch fails and a higher-numbered sibling of the same step panics:
            // every branch of the step runs in both, so both must panic). Async kinds may legitimately differ there.
            let acts: Vec<u16> = all_acts(group[0].case.prog).iter().filter(|a| a.id != 0).map(|a| a.id).collect();
            if !acts.is_empty() {
                for _ in 0..(if thorough { 32 } else { 6 }) {
                    let mut p: Plan = vec![(acts[rng.below(acts.len())], PANIC)];
                    if !ids.is_empty() && rng.chance(3, 4) {
                        let f = ids[rng.below(ids.len())];
                        if f != p[0].0 {
                            p.push((f, FAIL));
                        }
                    }
                    plans.push(p);
                }
            }
            for p in plans {
                let panic_plan = p.iter().any(|(_, f)| f & PANIC != 0);
                let mut res: HashMap<(Kind, Option<HK>), (Outcome, Vec<(u16, Vec<u16>)>, Vec<Ev>, Vec<Option<String>>)> = HashMap::new();
                let mut unnamed: HashMap<(Kind, Option<HK>), Outcome> = HashMap::new();
                for cx in &group {
                    if panic_plan && cx.case.kind.is_async() {
                        continue;
                    }
                    let rec = match self.exec(cx, &p, &default, true) {
                        Some(r) => r.0,
                        None => continue,
                    };
                    // the root flag (caller's task vs spawned task) is part of the per-branch trace
                    let mut calls: Vec<(u16, Vec<u16>)> = rec.log.iter().filter(|e| matches!(e.k, K::Call | K::Hnd | K::Join)).map(|e| {
                        let mut h = e.h.clone();
                        h.push(if e.root { 0xFFF1 } else { 0xFFF2 });
                        (e.id, h)
                    }).collect();
                    // per-branch order is what matters; sort by (branch, seq) using a stable key
                    let idx = &cx.idx;
                    calls.sort_by_key(|(id, _)| idx.get(*id as usize).and_then(|m| m.as_ref()).map(|m| (m.step, m.branch)).unwrap_or((usize::MAX, 0)));
                    let mut names: Vec<Option<String>> = rec.log.iter().filter(|e| e.k == K::Call).map(|e| crate::log::thread_name(e.thr)).collect();
                    names.sort();
                    names.dedup();
                    res.insert((cx.case.kind, cx.case.hk), (rec.outcome.clone(), calls, rec.log, names));
                    if cx.case.kind.is_threads() {
                        // the same program called from an unnamed thread must still agree with the plain macro
                        let s2 = Sched { caller: None, ..default.clone() };
                        if let Some((rec2, _, _)) = self.exec(cx, &p, &s2, true) {
                            unnamed.insert((cx.case.kind, cx.case.hk), rec2.outcome.clone());
                        }
                    }
                }
                for cx in &group {
                    let k = cx.case.kind;
                    let me = match res.get(&(k, cx.case.hk)) {
                        Some(m) => m,
                        None => continue,
                    };
                    let mut cmp = |other: Kind, exact: bool, stats: &mut Stats| {
                        if let Some(o) = res.get(&(other, cx.case.hk)) {
                            let exp = model::run(cx.case.prog, k, cx.case.hk, &p);
                            let same = match (&me.0, &o.0) {
                                // these runs are ungated and driven by the deterministic executors (harness executor, tokio
                                // current_thread): also when several branches fail in one step both macros have to report the
                                // same one — "the same result for the same branches"
                                (Outcome::Done(a), Outcome::Done(b)) => {
                                    if a != b && k.is_async() && exp.outs.len() > 1 && exp.outs.contains(a) && exp.outs.contains(b) {
                                        stats.bump("async_pairs_reporting_different_failing_branches", 1);
                                    }
                                    a == b
                                }
                                (Outcome::Panicked(_), Outcome::Panicked(_)) => true,
                                _ => false,
                            };
                            let mut msgs = Vec::new();
                            if !same {
                                msgs.push(format!("{} gives {:?} but {} gives {:?}", k.name(), me.0, other.name(), o.0));
                            }
                            if panic_plan {
                                stats.bump("pairs_compared_under_a_panic_plan", 1);
                            }
                            if exact && !panic_plan && !(k.is_async() && exp.fail_step.is_some()) {
                                if me.1 != o.1 {
                                    msgs.push(format!("{} and {} differ in their per-branch callback traces", k.name(), other.name()));
                                }
                                if me.3 != o.3 {
                                    msgs.push(format!("{} and {} differ in thread names: {:?} vs {:?}", k.name(), other.name(), me.3, o.3));
                                }
                            }
                            for m in msgs {
                                stats.viol_count += 1;
                                if stats.viols.len() < 40 {
                                    stats.viols.push(Viol { tag: "C07".into(), msg: m, case: case_name(cx.case), replay: format!("--replay {}|{}|{}", case_name(cx.case), plan_str(&p), sched_str(&default)), text: cx.case.prog.text.to_string() });
                                }
                            }
                            stats.bump(if exact { "alias_pairs_compared" } else { "plain_spawn_pairs_compared" }, 1);
                        }
                    };
                    if let (Some(u), Some(pl)) = (unnamed.get(&(k, cx.case.hk)), res.get(&(k.plain(), cx.case.hk))) {
                        let same = match (u, &pl.0) {
                            (Outcome::Done(a), Outcome::Done(b)) => a == b,
                            (Outcome::Panicked(_), Outcome::Panicked(_)) => true,
                            _ => false,
                        };
                        if !same {
                            self.stats.viol_count += 1;
                            if self.stats.viols.len() < 40 {
                                self.stats.viols.push(Viol { tag: "C07".into(), msg: format!("called from an unnamed thread {} gives {:?} but {} gives {:?}", k.name(), u, k.plain().name(), pl.0), case: case_name(cx.case), replay: format!("--replay {}|{}|{}", case_name(cx.case), plan_str(&p), "prio=;batch=0;spurious=0;caller=-;grace=0;drop=0"), text: cx.case.prog.text.to_string() });
                            }
                        }
                        self.stats.bump("unnamed_caller_pairs_compared", 1);
                    }
                    if k.alias_target() != k {
                        cmp(k.alias_target(), true, &mut self.stats);
                    } else if k.plain() != k {
                        cmp(k.plain(), false, &mut self.stats);
                    }
                }
            }
            // the async family under controlled wake-up orders: every future-returning probe is gated, failures (up to two)
            // are placed by the plan, and the plain macro, its task-spawning variant and the alias run under the *same*
            // release order on the deterministic drivers — which branch fails first in time is then the same for all of them,
            // and so is the result they have to report
            // (not for programs with an awaited head: there the plain macro awaits the head before any branch exists while the
            // task-spawning one already runs the earlier branches, so the feasible wake-up orders differ by design)
            if cfg!(miri) || all_acts(group[0].case.prog).iter().any(|a| matches!(a.op, Op::SrcAwait)) {
                continue;
            }
            for round in 0..(if thorough { 6 } else { 2 }) {
                let mut p: Plan = Vec::new();
                if !ids.is_empty() {
                    p.push((ids[rng.below(ids.len())], FAIL));
                    if ids.len() >= 2 && round % 2 == 0 {
                        let f2 = ids[rng.below(ids.len())];
                        if f2 != p[0].0 {
                            p.push((f2, FAIL));
                        }
                    }
                }
                for tryness in [false, true] {
                    let fam: Vec<&&CaseCtx> = group.iter().filter(|cx| cx.case.kind.is_async() && cx.case.kind.is_try() == tryness).collect();
                    let plain = match fam.iter().find(|cx| cx.case.kind.plain() == cx.case.kind && cx.case.kind.alias_target() == cx.case.kind) {
                        Some(c) => **c,
                        None => continue,
                    };
                    let exp = model::run(plain.case.prog, plain.case.kind, plain.case.hk, &p);
                    let gates = choose_gates(plain.case, &exp, GateMode::All, &mut rng);
                    let ngates: usize = gates.iter().map(|g| g.1.len()).sum();
                    if ngates < 2 {
                        continue;
                    }
                    let (ps, _) = prios(&gates, 2, &mut rng);
                    let gp = with_gates(&p, &gates);
                    for pr in ps {
                        let s = Sched { prio: pr, batch: 1, ..default.clone() };
                        let mut outs: Vec<(Kind, Outcome)> = Vec::new();
                        for cx in fam.iter().filter(|cx| cx.case.hk == plain.case.hk) {
                            if let Some((rec, _, _)) = self.exec(cx, &gp, &s, true) {
                                outs.push((cx.case.kind, rec.outcome.clone()));
                            }
                        }
                        let base = match outs.iter().find(|(k, _)| *k == plain.case.kind) {
                            Some((_, o)) => o.clone(),
                            None => continue,
                        };
                        for (k, o) in &outs {
                            if *k == plain.case.kind {
                                continue;
                            }
                            let same = match (&base, o) {
                                (Outcome::Done(a), Outcome::Done(b)) => a == b,
                                (Outcome::Hung(_), _) | (_, Outcome::Hung(_)) | (Outcome::Deadlock(_), _) | (_, Outcome::Deadlock(_)) => true, // judged by C09
                                (Outcome::Panicked(_), Outcome::Panicked(_)) => true,
                                _ => false,
                            };
                            self.stats.bump("async_pairs_compared_under_the_same_release_order", 1);
                            if !same {
                                self.stats.viol_count += 1;
                                if self.stats.viols.len() < 40 {
                                    self.stats.viols.push(Viol { tag: "C07".into(), msg: format!("under the same wake-up order {} gives {:?} but {} gives {:?}", k.name(), o, plain.case.kind.name(), base), case: case_name(plain.case), replay: format!("--replay {}|{}|{}", case_name(plain.case), plan_str(&gp), sched_str(&s)), text: plain.case.prog.text.to_string() });
                                }
                            }
                        }
                    }
                }
            }
        }
    }
}

fn quiet_panics() {
    // injected panics (and their re-raises by thread/task joins) are expected; anything else is printed
    std::panic::set_hook(Box::new(|info| {
        let msg = if let Some(s) = info.payload().downcast_ref::<&str>() {
            s.to_string()
        } else if let Some(s) = info.payload().downcast_ref::<String>() {
            s.clone()
        } else {
            String::new()
        };
        if msg.contains("injected panic") || msg.contains("JoinHandle failed") || msg.contains("Any { .. }") {
            return;
        }
        eprintln!("PANIC (not injected): {} at {:?}", msg, info.location().map(|l| format!("{}:{}", l.file(), l.line())));
    }));
}

pub fn main(cases: &'static [Case]) {
    let args = parse_args();
    quiet_panics();
    crate::log::mark_harness_thread();
    let ctxs: Vec<CaseCtx> = cases.iter().map(|c| CaseCtx { case: c, idx: model::index(c.prog) }).collect();
    let mut eng = Engine { args: &args, stats: Stats::default(), rng: Rng::new(args.seed), start: Instant::now(), prev_run: None, stopped_noted: false, escalations: 0 };
    if let Some(r) = &args.replay {
        let parts: Vec<&str> = r.split('|').collect();
        let name = parts[0];
        let plan = parse_plan(parts.get(1).copied().unwrap_or(""));
        let sched = parse_sched(parts.get(2).copied().unwrap_or(""));
        let mut found = false;
        for cx in &ctxs {
            if case_name(cx.case) == name {
                found = true;
                let a2 = Args { trace: true, ..parse_args() };
                let mut e2 = Engine { args: &a2, stats: Stats::default(), rng: Rng::new(args.seed), start: Instant::now(), prev_run: None, stopped_noted: false, escalations: 0 };
                e2.exec(cx, &plan, &sched, true);
                for v in &e2.stats.viols {
                    println!("VIOLATION-DETAIL [{}] {}", v.tag, v.msg);
                }
            }
        }
        if !found {
            println!("case {} is not in this shard", name);
            std::process::exit(3);
        }
        return;
    }
    // shard selection: by program id so that C07 groups stay together
    let mut mine: Vec<CaseCtx> = ctxs.into_iter().filter(|c| (c.case.prog.id as usize) % args.nshards == args.shard).collect();
    if args.max_runs > 0 && !mine.is_empty() {
        // capped runs (Miri): start at a seed-dependent case so that different seeds cover different cases
        let k = (args.seed as usize * 7) % mine.len();
        mine.rotate_left(k);
    }
    eng.run_prop(&mine);
    let st = &eng.stats;
    let viols: Vec<String> = st.viols.iter().map(|v| obj(&[("tag", esc(&v.tag)), ("msg", esc(&v.msg)), ("case", esc(&v.case)), ("replay", esc(&v.replay)), ("program", esc(&v.text))])).collect();
    let cover: Vec<(String, String)> = st.cover.iter().map(|(k, v)| (k.clone(), v.to_string())).collect();
    let cover_s = format!("{{{}}}", cover.iter().map(|(k, v)| format!("{}:{}", esc(k), v)).collect::<Vec<_>>().join(","));
    let kinds: BTreeMap<&str, usize> = st.cases.iter().fold(BTreeMap::new(), |mut m, (_, k)| {
        *m.entry(k.name()).or_insert(0) += 1;
        m
    });
    let kinds_s = format!("{{{}}}", kinds.iter().map(|(k, v)| format!("{}:{}", esc(k), v)).collect::<Vec<_>>().join(","));
    let rep = obj(&[
        ("prop", esc(&args.prop)),
        ("shard", args.shard.to_string()),
        ("runs", st.runs.to_string()),
        ("events", st.events.to_string()),
        ("cases", st.cases.len().to_string()),
        ("programs", st.cases.iter().map(|c| c.0).collect::<HashSet<_>>().len().to_string()),
        ("kinds", kinds_s),
        ("nontrivial", arr(&st.nontrivial.iter().map(|h| h.to_string()).collect::<Vec<_>>())),
        ("orders", arr(&st.orders.iter().map(|h| h.to_string()).collect::<Vec<_>>())),
        ("violations", arr(&viols)),
        ("violation_count", st.viol_count.to_string()),
        ("inconclusive", arr(&st.inconclusive.iter().map(|s| esc(s)).collect::<Vec<_>>())),
        ("samples", arr(&st.samples)),
        ("cover", cover_s),
        ("max_held", st.max_held.to_string()),
        ("decisions", st.decisions.to_string()),
        ("polls", st.polls.to_string()),
        ("wall_ms", eng.start.elapsed().as_millis().to_string()),
    ]);
    match &args.out {
        Some(p) => std::fs::write(p, rep).expect("write report"),
        None => println!("{}", rep),
    }
}
