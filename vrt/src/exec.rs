//! Executors / controllers: how a compiled case is run under a plan and a schedule.
//!  * sequential kinds: inline, one schedule
//!  * thread kinds: the macro runs on a fresh caller thread, the harness thread is the gate controller
//!  * async kinds: a single-threaded poll loop with a counting root waker (all decisions logical)
//!  * task kinds: the same decisions, made from inside a tokio current_thread `block_on` future
use crate::desc::*;
use crate::gate;
use crate::log::{self, Ev, K};
use crate::model::Exp;
use crate::out::Out;
use crate::plan::{self, flags_of, Plan, GATE};
use std::collections::HashSet;
use std::future::Future;
use std::panic::{catch_unwind, AssertUnwindSafe};
use std::pin::Pin;
use std::sync::atomic::{AtomicUsize, Ordering};
use std::sync::{mpsc, Arc};
use std::task::{Context, Poll, Wake, Waker};
use std::time::{Duration, Instant};

#[derive(Clone, Debug, PartialEq)]
pub enum Outcome {
    Done(Out),
    Panicked(String),
    /// bounded-progress expiry while waiting for the listed gates / for the result
    Hung(String),
    /// logical deadlock of a future: pending, nothing left to release, not notified
    Deadlock(String),
    /// the macro's future was dropped by the harness at a quiescent pending point (`Sched::cancel_at`)
    Cancelled,
}

#[derive(Clone, Debug)]
pub struct Note {
    pub prop: &'static str,
    pub msg: String,
}

#[derive(Clone, Debug, Default)]
pub struct Sched {
    /// release priority over gate ids (earlier = released first among the pending ones)
    pub prio: Vec<u16>,
    /// how many pending gates are released per decision (0 = all)
    pub batch: usize,
    /// inject a spurious poll before every release (async)
    pub spurious: bool,
    /// name of the caller thread (thread kinds); None = unnamed
    pub caller: Option<String>,
    /// grace period before asserting "nothing of a later step exists" while a gate is held
    pub grace_us: u64,
    /// bound for waits that should complete (arrival sets, results)
    pub bound_ms: u64,
    /// drop the future unpolled instead of running it (laziness check)
    pub drop_unpolled: bool,
    /// task kinds: run on a multi-thread tokio runtime with a releasing thread (stress; expiries are inconclusive)
    pub mt: bool,
    /// thread kinds, panicking plans: never release the gates of the higher-index siblings of the panicking branch;
    /// the panic has to reach the caller while they are held
    pub hold_after_panic: bool,
    /// task kinds: where the macro's future is *created* — 0: inside the first poll on the polling runtime; 1: in plain
    /// synchronous code, outside every runtime context; 2: inside the context of another runtime that is never driven.
    /// It is always polled on the harness runtime: a lazy future binds to the context it is polled in
    pub create_ctx: u8,
    /// async kinds, ungated runs: who polls the macro's future (0 = the controlled drivers). Task kinds: 1 multi-thread
    /// runtime `block_on`; 2 `futures::executor::block_on` nested inside a multi-thread `block_on`; 3 the same inside
    /// `block_in_place`; 4 `LocalSet` on a current-thread runtime; 5 `LocalSet` on a multi-thread runtime; 6 current-thread
    /// `block_on`. Non-spawning kinds: 7 `futures::executor::block_on` outside every runtime; 8 tokio current-thread
    /// `block_on`; 9 `futures::executor::LocalPool::run_until`. Task kinds again: 10 / 11 polled by tokio (current-thread /
    /// multi-thread) next to a sibling future that exhausts the task's cooperative-scheduling budget in every poll.
    pub poll_ctx: u8,
    /// async kinds, gated runs: at the n-th decision point (root pending, quiescent; 1-based, 0 = never) the macro's future
    /// is dropped instead of releasing a gate. Every value the future owned must be dropped with it (non-spawning kinds:
    /// at once; task kinds: at the latest when the detached tasks have run out and the runtime is gone)
    pub cancel_at: usize,
}

pub struct RunRec {
    pub outcome: Outcome,
    /// events of this run (events of stragglers from earlier runs are split off into `stale`)
    pub log: Vec<Ev>,
    pub stale: Vec<Ev>,
    pub notes: Vec<Note>,
    pub caller_thr: u32,
    pub polls: usize,
    pub decisions: usize,
    pub max_held: usize,
    pub quiesced: bool,
    /// thread kinds with `hold_after_panic`: number of sibling threads still held at a gate when the result arrived
    pub held_at_result: usize,
}

pub fn panic_msg(e: Box<dyn std::any::Any + Send>) -> String {
    if let Some(s) = e.downcast_ref::<&str>() {
        s.to_string()
    } else if let Some(s) = e.downcast_ref::<String>() {
        s.clone()
    } else {
        "<non-string panic payload>".into()
    }
}

/// Which gates the model says are reached, per (step, branch), in order.
pub struct GateTracker {
    /// (step, branch, gates in order)
    seqs: Vec<(usize, usize, Vec<u16>)>,
    handler: Option<u16>,
    /// gates of the siblings of a panicking branch in the panicking step: the panic must reach the caller
    /// without any of them being released (async kinds)
    pub optional: HashSet<u16>,
    /// gates of the higher-index siblings of a panicking branch in the panicking step: in the thread kinds the
    /// handles are joined in branch order, so the panic must reach the caller without any of them being released
    pub after_panic: HashSet<u16>,
    /// (step, branch) of the injected panic when it is certain to happen
    pub panic_pos: Option<(usize, usize)>,
    /// gate id -> branch, for initial values that are awaited in the caller's block (`srca(ID).await`)
    pub heads: Vec<(u16, usize)>,
    tasks: bool,
}
impl GateTracker {
    pub fn new(prog: &Prog, exp: &Exp, plan: &Plan) -> Self {
        Self::new_for(prog, exp, plan, false)
    }
    pub fn new_for(prog: &Prog, exp: &Exp, plan: &Plan, tasks: bool) -> Self {
        let gated = |id: u16| flags_of(plan, id) & GATE != 0;
        let heads: Vec<(u16, usize)> = prog.branches.iter().enumerate().filter(|(_, b)| b.steps[0][0].op == Op::SrcAwait && gated(b.steps[0][0].id)).map(|(i, b)| (b.steps[0][0].id, i)).collect();
        let mut seqs = Vec::new();
        for (k, st) in exp.steps.iter().enumerate() {
            for b in &st.brs {
                let mut g = Vec::new();
                if b.cut_in_caps {
                    continue;
                }
                // initial value first (its action point is its evaluation)
                if k == 0 {
                    let src = prog.branches[b.branch].steps[0][0].id;
                    if gated(src) && (b.evals.contains(&src) || b.cap_evals.contains(&src)) {
                        g.push(src);
                    }
                }
                for (id, _) in &b.calls {
                    if gated(*id) {
                        g.push(*id);
                    }
                }
                if !g.is_empty() {
                    seqs.push((k, b.branch, g));
                }
            }
        }
        let handler = exp.hnd.as_ref().map(|h| h.0).filter(|id| gated(*id));
        let mut optional = HashSet::new();
        let mut after_panic = HashSet::new();
        let mut panic_pos = None;
        if let (true, Some((pk, pb))) = (exp.panics && !exp.panic_optional, exp.panic_at) {
            if pk != usize::MAX {
                panic_pos = Some((pk, pb));
                for (k, b, gs) in &seqs {
                    if *k == pk && *b != pb {
                        optional.extend(gs.iter().copied());
                    }
                    if *k == pk && *b > pb {
                        after_panic.extend(gs.iter().copied());
                    }
                }
            }
        }
        // an awaited head suspends the caller's own block: it is never "just a sibling"
        for (g, _) in &heads {
            optional.remove(g);
        }
        GateTracker { seqs, handler, optional, after_panic, panic_pos, heads, tasks }
    }
    /// all gates of step k, with their branch
    pub fn gates_of_step(&self, k: usize) -> Vec<(usize, u16)> {
        self.seqs.iter().filter(|s| s.0 == k).flat_map(|s| s.2.iter().map(move |g| (s.1, *g))).collect()
    }
    pub fn all(&self) -> Vec<u16> {
        let mut v: Vec<u16> = self.seqs.iter().flat_map(|s| s.2.iter().copied()).collect();
        v.extend(self.handler);
        v
    }
    /// The awaited head (lowest branch) that is still unreleased, if any: while it is pending the caller's own
    /// block is suspended in the middle of building the step-0 arguments.
    pub fn pending_head(&self, released: &HashSet<u16>) -> Option<(u16, usize)> {
        self.heads.iter().filter(|(g, _)| !released.contains(g)).min_by_key(|(_, b)| *b).copied()
    }
    /// (gates that must have arrived by now, gates that must not have arrived yet, current step)
    pub fn expect(&self, released: &HashSet<u16>) -> (Vec<u16>, Vec<u16>, usize) {
        if let Some((hg, hb)) = self.pending_head(released) {
            // branches after the awaited head do not exist yet; branches before it are running tasks in the
            // task-spawning kinds and not yet polled futures in the others
            let mut must = vec![hg];
            if self.tasks {
                for (sk, b, gs) in &self.seqs {
                    if *sk == 0 && *b < hb {
                        if let Some(g) = gs.iter().find(|g| !released.contains(g)) {
                            must.push(*g);
                        }
                    }
                }
            }
            let mustnot: Vec<u16> = self.seqs.iter().filter(|s| s.0 > 0).flat_map(|s| s.2.iter().copied()).filter(|g| !released.contains(g)).collect();
            return (must, mustnot, 0);
        }
        let cur = self.seqs.iter().filter(|s| s.2.iter().any(|g| !released.contains(g))).map(|s| s.0).min();
        let mut must = Vec::new();
        let mut mustnot = Vec::new();
        match cur {
            Some(k) => {
                for (sk, _, gs) in &self.seqs {
                    let mut first = true;
                    for g in gs.iter().filter(|g| !released.contains(g)) {
                        if *sk == k && first {
                            must.push(*g);
                        } else {
                            mustnot.push(*g);
                        }
                        first = false;
                    }
                }
                mustnot.extend(self.handler.filter(|h| !released.contains(h)));
                (must, mustnot, k)
            }
            None => {
                must.extend(self.handler.filter(|h| !released.contains(h)));
                (must, mustnot, usize::MAX)
            }
        }
    }
    /// Callbacks the model says must already have run at a quiescent point: every branch of the current step has
    /// progressed up to its own next unreleased gate (or to its step end). Returns (branch, missing callback id).
    pub fn missing_progress(&self, exp: &Exp, released: &HashSet<u16>, logged: &[u16]) -> Vec<(usize, u16)> {
        let (_, _, k) = self.expect(released);
        if k == usize::MAX || k >= exp.steps.len() || exp.panics {
            return vec![];
        }
        let head = self.pending_head(released);
        let mut count: std::collections::HashMap<u16, usize> = std::collections::HashMap::new();
        for id in logged {
            *count.entry(*id).or_insert(0) += 1;
        }
        let mut missing = Vec::new();
        for br in &exp.steps[k].brs {
            if let Some((_, hb)) = head {
                if !(self.tasks && br.branch < hb) {
                    continue;
                }
            }
            let gates: Vec<u16> = self.seqs.iter().filter(|s| s.0 == k && s.1 == br.branch).flat_map(|s| s.2.iter().copied()).collect();
            let stop = gates.iter().find(|g| !released.contains(g)).copied();
            let mut need: std::collections::HashMap<u16, usize> = std::collections::HashMap::new();
            let mut blocked_at_src = false;
            if let Some(g) = stop {
                // a gated initial value blocks everything of its branch
                if !br.calls.iter().any(|c| c.0 == g) {
                    blocked_at_src = true;
                }
            }
            if blocked_at_src {
                continue;
            }
            for (id, _) in &br.calls {
                *need.entry(*id).or_insert(0) += 1;
                if Some(*id) == stop {
                    break;
                }
            }
            for (id, n) in need {
                if count.get(&id).copied().unwrap_or(0) < n {
                    missing.push((br.branch, id));
                }
            }
        }
        missing
    }
}

fn pick(prio: &[u16], pending: &[u16], batch: usize) -> Vec<u16> {
    let mut p: Vec<u16> = pending.to_vec();
    p.sort_by_key(|g| prio.iter().position(|x| x == g).unwrap_or(usize::MAX));
    let n = if batch == 0 { p.len() } else { batch.min(p.len()) };
    p.truncate(n);
    p
}

fn setup(prog: &Prog, plan: &Plan) {
    log::new_epoch();
    log::clear();
    gate::reset();
    plan::install(prog.max_id, plan);
}

fn split_log() -> (Vec<Ev>, Vec<Ev>) {
    let all = log::take();
    let (stale, mut fresh): (Vec<Ev>, Vec<Ev>) = all.into_iter().partition(|e| e.stale);
    for (i, e) in fresh.iter_mut().enumerate() {
        e.seq = i as u32;
    }
    (fresh, stale)
}

/// Number of OS threads of this process (None where /proc is not available, e.g. under Miri).
pub fn os_threads() -> Option<usize> {
    if cfg!(miri) {
        return None;
    }
    std::fs::read_dir("/proc/self/task").ok().map(|d| d.count())
}

/// Wait until no value token is alive any more and the process is back to `base_threads` OS threads
/// (every straggler thread has ended, including ones that were spawned but had not started yet).
pub fn quiesce(bound: Duration, base_threads: Option<usize>) -> bool {
    gate::wait_until(bound, || crate::tok::live() == 0 && (base_threads.is_none() || os_threads().map(|n| n <= base_threads.unwrap()).unwrap_or(true)))
}

pub fn run_sync(case: &Case, plan: &Plan) -> RunRec {
    setup(case.prog, plan);
    let f = match case.run {
        Run::Sync(f) => f,
        _ => unreachable!(),
    };
    let caller_thr = log::thr();
    let r = catch_unwind(AssertUnwindSafe(f));
    log::log(K::Post, 0, &[]);
    let outcome = match r {
        Ok(o) => Outcome::Done(o),
        Err(e) => Outcome::Panicked(panic_msg(e)),
    };
    { let (l, st) = split_log(); RunRec { outcome, log: l, stale: st, notes: vec![], caller_thr, polls: 0, decisions: 0, max_held: 0, quiesced: crate::tok::live() == 0, held_at_result: 0 } }
}

/// step of a probe id (None for ids that do not belong to a step, e.g. handlers)
pub type StepOf<'a> = &'a dyn Fn(u16) -> Option<usize>;

fn later_step_event(step_of: StepOf, k: usize) -> Option<Ev> {
    log::snapshot()
        .into_iter()
        .find(|e| !e.stale && matches!(e.k, K::Eval | K::Call | K::Cap | K::Snap | K::Arrive) && step_of(e.id).map(|s| s > k).unwrap_or(false))
}

pub fn run_threads(case: &Case, exp: &Exp, plan: &Plan, sched: &Sched, step_of: StepOf) -> RunRec {
    let base_threads = os_threads();
    setup(case.prog, plan);
    let f = match case.run {
        Run::Sync(f) => f,
        _ => unreachable!(),
    };
    let (tx, rx) = mpsc::channel();
    let b = match &sched.caller {
        Some(n) => std::thread::Builder::new().name(n.clone()),
        None => std::thread::Builder::new(),
    };
    let handle = b
        .spawn(move || {
            let thr = log::thr();
            let r = catch_unwind(AssertUnwindSafe(f));
            log::log(K::Post, 0, &[]);
            let _ = tx.send((thr, r.map_err(panic_msg)));
        })
        .expect("spawn caller");
    let tracker = GateTracker::new(case.prog, exp, plan);
    let bound = Duration::from_millis(sched.bound_ms.max(1));
    let mut released: HashSet<u16> = HashSet::new();
    let mut notes = Vec::new();
    let mut decisions = 0;
    let mut max_held = 0;
    let mut held_at_result = 0;
    let mut result: Option<(u32, Result<Out, String>)> = None;
    let mut caller_thr = u32::MAX;
    let outcome;
    loop {
        let (must, mustnot, k) = tracker.expect(&released);
        if sched.hold_after_panic && tracker.panic_pos.map(|p| p.0) == Some(k) {
            // The panicking step. Thread handles are joined in branch order, so the panic has to reach the caller
            // while the threads of higher-index siblings are still held. Gates of the other branches are released
            // as they arrive (which gates the panicking branch itself still reaches depends on the evaluation order
            // inside its chain expression, so none of them is waited for).
            let step_gates = tracker.gates_of_step(k);
            let mut deadline = Instant::now() + bound;
            let mut spins = 0u32;
            loop {
                if result.is_none() {
                    if let Ok(r) = rx.try_recv() {
                        result = Some(r);
                    }
                }
                if result.is_some() {
                    break;
                }
                let arr = gate::arrived();
                let mut cand: Vec<u16> = step_gates.iter().map(|x| x.1).filter(|g| arr.contains(g) && !released.contains(g) && !tracker.after_panic.contains(g)).collect();
                if !cand.is_empty() {
                    cand = pick(&sched.prio, &cand, 1);
                    released.insert(cand[0]);
                    gate::release(cand[0]);
                    decisions += 1;
                    max_held = max_held.max(gate::pending().len());
                    deadline = Instant::now() + bound;
                    continue;
                }
                if Instant::now() >= deadline {
                    break;
                }
                spins += 1;
                if spins < 100 {
                    std::thread::yield_now();
                } else {
                    std::thread::sleep(Duration::from_micros(50));
                }
            }
            let held = gate::pending();
            match result.take() {
                Some((thr, r)) => {
                    caller_thr = thr;
                    held_at_result = held.len();
                    outcome = match r {
                        Ok(o) => Outcome::Done(o),
                        Err(m) => Outcome::Panicked(m),
                    };
                }
                None => {
                    outcome = Outcome::Hung(format!("the panic did not reach the caller within {:?} while only sibling thread(s) of higher branch index are held, at gate(s) {:?} (arrived={:?}): the caller is left blocked", bound, held, gate::arrived()));
                }
            }
            break;
        }
        if must.is_empty() {
            // nothing left to release: the macro must return
            let got = match result.take() {
                Some(r) => Ok(r),
                None => rx.recv_timeout(bound).map_err(|_| ()),
            };
            match got {
                Ok((thr, r)) => {
                    caller_thr = thr;
                    outcome = match r {
                        Ok(o) => Outcome::Done(o),
                        Err(m) => Outcome::Panicked(m),
                    };
                }
                Err(_) => {
                    outcome = Outcome::Hung(format!("no result within {:?} after all gates were released (arrived={:?})", bound, gate::arrived()));
                }
            }
            break;
        }
        // wait for the arrival set, or for an (early) result
        let deadline = Instant::now() + bound;
        let mut complete = false;
        let mut spins = 0u32;
        loop {
            let arr = gate::arrived();
            if must.iter().all(|g| arr.contains(g)) {
                complete = true;
                break;
            }
            if result.is_none() {
                if let Ok(r) = rx.try_recv() {
                    result = Some(r);
                }
            }
            if result.is_some() || Instant::now() >= deadline {
                break;
            }
            spins += 1;
            if spins < 100 {
                std::thread::yield_now();
            } else {
                std::thread::sleep(Duration::from_micros(50));
            }
        }
        if !complete {
            if let Some((thr, r)) = &result {
                caller_thr = *thr;
                // the macro returned while gates the model expects were never reached / are still held
                let arr = gate::arrived();
                let held: Vec<u16> = arr.iter().copied().filter(|g| !released.contains(g)).collect();
                outcome = match r {
                    Ok(o) => Outcome::Done(o.clone()),
                    Err(m) => Outcome::Panicked(m.clone()),
                };
                if !exp.panics {
                    if !held.is_empty() {
                        notes.push(Note { prop: "C08", msg: format!("the caller continued while branch thread(s) of step {} were still held at gate(s) {:?}", k, held) });
                    }
                }
                break;
            }
            let arr = gate::arrived();
            let missing: Vec<u16> = must.iter().copied().filter(|g| !arr.contains(g)).collect();
            outcome = Outcome::Hung(format!("arrival set of step {} incomplete after {:?}: arrived={:?} missing={:?} (held={:?})", k, bound, arr, missing, gate::pending()));
            break;
        }
        decisions += 1;
        let pending = gate::pending();
        max_held = max_held.max(pending.len());
        // barrier: nothing of a later step may have been reached while step k gates are held
        let arr = gate::arrived();
        if let Some(g) = mustnot.iter().find(|g| arr.contains(g)) {
            notes.push(Note { prop: "C03", msg: format!("gate {} (later step) reached while gate(s) {:?} of step {} are held", g, pending, k) });
        }
        if sched.grace_us > 0 && k != usize::MAX {
            std::thread::sleep(Duration::from_micros(sched.grace_us));
            if let Some(e) = later_step_event(step_of, k) {
                notes.push(Note { prop: "C03", msg: format!("event {:?}({}) of step {:?} logged while gate(s) {:?} of step {} are held", e.k, e.id, step_of(e.id), pending, k) });
                notes.push(Note { prop: "C08", msg: format!("the caller went on to step {:?} (event {:?}({})) while branch thread(s) of step {} are still held at gate(s) {:?}", step_of(e.id), e.k, e.id, k, pending) });
            }
            if log::any(|e| e.k == K::Post && !e.stale) {
                notes.push(Note { prop: "C08", msg: format!("the caller continued (Post) while gate(s) {:?} of step {} are held", pending, k) });
            }
        }
        for g in pick(&sched.prio, &must, sched.batch) {
            released.insert(g);
            gate::release(g);
        }
    }
    // cleanup: let every straggler run to its end, then require an empty ledger
    gate::open_all();
    let mut quiesced = true;
    if matches!(outcome, Outcome::Hung(_)) {
        // the caller may still be blocked; give it a moment after open_all, then detach it
        if rx.recv_timeout(Duration::from_millis(500)).is_ok() {
            let _ = handle.join();
        }
        quiesced = quiesce(Duration::from_millis(500), base_threads);
    } else {
        let _ = handle.join();
        if !quiesce(Duration::from_secs(5), base_threads) {
            quiesced = false;
        }
    }
    let (l, st) = split_log();
    RunRec { outcome, log: l, stale: st, notes, caller_thr, polls: 0, decisions, max_held, quiesced, held_at_result }
}

struct CountWaker(AtomicUsize);
impl Wake for CountWaker {
    fn wake(self: Arc<Self>) {
        self.0.fetch_add(1, Ordering::SeqCst);
    }
    fn wake_by_ref(self: &Arc<Self>) {
        self.0.fetch_add(1, Ordering::SeqCst);
    }
}

/// The decision procedure shared by both async drivers, taken at a quiescent point with the root Pending.
struct Decider<'a> {
    exp: &'a Exp,
    tracker: GateTracker,
    released: HashSet<u16>,
    sched: &'a Sched,
    notes: Vec<Note>,
    decisions: usize,
    max_held: usize,
    is_try: bool,
}
enum Next {
    /// gates released; poll again when notified
    Released(Vec<u16>),
    Deadlock(String),
}
impl<'a> Decider<'a> {
    fn decide(&mut self) -> Next {
        let (must, mustnot, k) = self.tracker.expect(&self.released);
        let arr = gate::arrived();
        let pending: Vec<u16> = arr.iter().copied().filter(|g| !self.released.contains(g)).collect();
        self.max_held = self.max_held.max(pending.len());
        for g in &must {
            if !arr.contains(g) {
                self.notes.push(Note {
                    prop: "C09",
                    msg: format!("gate {} of step {} not reached at a quiescent point although its branch is not waiting for anything (held: {:?}) — a pending sibling blocks it", g, k, pending),
                });
            }
        }
        if let Some(g) = mustnot.iter().find(|g| arr.contains(g)) {
            self.notes.push(Note { prop: "C03", msg: format!("gate {} (later step) reached while gate(s) {:?} of step {} are pending", g, pending, k) });
        }
        // independent progress: every branch has run up to its own next pending point
        let logged: Vec<u16> = log::snapshot().iter().filter(|e| e.k == K::Call && !e.stale).map(|e| e.id).collect();
        for (b, id) in self.tracker.missing_progress(self.exp, &self.released, &logged) {
            self.notes.push(Note {
                prop: "C09",
                msg: format!("at a quiescent point branch {} has not invoked callback {} of step {} although nothing it depends on is pending (held gates of siblings: {:?}) — a pending sibling blocks it", b, id, k, pending),
            });
        }
        if pending.is_empty() {
            return Next::Deadlock(format!("future pending, not notified, no gate left to release (released={:?}, expected next={:?})", self.released, must));
        }
        let pending: Vec<u16> = if self.tracker.optional.is_empty() {
            pending
        } else {
            let need: Vec<u16> = pending.iter().copied().filter(|g| !self.tracker.optional.contains(g)).collect();
            if need.is_empty() {
                // the panicking branch is not waiting for anything, yet the future is still pending
                let m = format!("the injected panic has not reached the caller: the future is pending and not notified while only gates of sibling branches {:?} are held (the caller is left blocked until unrelated branches finish)", pending);
                self.notes.push(Note { prop: "C18", msg: m.clone() });
                return Next::Deadlock(m);
            }
            need
        };
        self.decisions += 1;
        let rel = pick(&self.sched.prio, &pending, self.sched.batch);
        for g in &rel {
            self.released.insert(*g);
        }
        let _ = self.is_try;
        Next::Released(rel)
    }
}

pub fn run_async_plain(case: &Case, exp: &Exp, plan: &Plan, sched: &Sched) -> RunRec {
    setup(case.prog, plan);
    let mk = match case.run {
        Run::Async(f) => f,
        _ => unreachable!(),
    };
    let caller_thr = log::thr();
    let mut d = Decider { exp, tracker: GateTracker::new_for(case.prog, exp, plan, case.kind.is_tasks()), released: HashSet::new(), sched, notes: vec![], decisions: 0, max_held: 0, is_try: case.kind.is_try() };
    let mut polls = 0usize;
    let r = catch_unwind(AssertUnwindSafe(|| -> Outcome {
        let fut = mk();
        if log::len() != 0 {
            d.notes.push(Note { prop: "C09", msg: format!("{} event(s) logged before the future was first polled: {:?}", log::len(), log::snapshot().iter().map(|e| (e.k, e.id)).collect::<Vec<_>>()) });
        }
        if sched.drop_unpolled {
            drop(fut);
            return Outcome::Done(Out::Tup(vec![]));
        }
        let mut fut: LocalFut = Box::pin(log::ROOT.scope(1, fut));
        let wk = Arc::new(CountWaker(AtomicUsize::new(0)));
        let waker = Waker::from(wk.clone());
        let mut cx = Context::from_waker(&waker);
        let mut seen = 0usize;
        loop {
            polls += 1;
            if let Poll::Ready(o) = fut.as_mut().poll(&mut cx) {
                return Outcome::Done(o);
            }
            if sched.cancel_at != 0 && d.decisions + 1 == sched.cancel_at && wk.0.load(Ordering::SeqCst) == seen {
                // cancellation: the future is pending and not notified; drop it where it stands
                let held = gate::arrived().len();
                let before = log::len();
                drop(fut);
                let live = crate::tok::live();
                if live != 0 {
                    d.notes.push(Note { prop: "C10", msg: format!("{} value token(s) still alive right after the macro's future was dropped at a pending point (decision {}, {} gate(s) reached): a cancelled future must drop everything it owns exactly once", live, sched.cancel_at, held) });
                }
                // the wakers stored by the gates are called now; nothing may run any more
                gate::open_all();
                if log::len() != before {
                    d.notes.push(Note { prop: "C10", msg: format!("{} event(s) logged after the macro's future was dropped (a non-spawning macro owns all of its work)", log::len() - before) });
                }
                return Outcome::Cancelled;
            }
            let c = wk.0.load(Ordering::SeqCst);
            if c > seen {
                // woken during its own poll: poll again
                seen = c;
                continue;
            }
            if sched.spurious {
                polls += 1;
                if let Poll::Ready(o) = fut.as_mut().poll(&mut cx) {
                    d.notes.push(Note { prop: "C09", msg: "future became ready on a spurious poll although nothing was released or notified".into() });
                    return Outcome::Done(o);
                }
                seen = wk.0.load(Ordering::SeqCst);
            }
            match d.decide() {
                Next::Deadlock(m) => return Outcome::Deadlock(m),
                Next::Released(gs) => {
                    let mut woke_any = false;
                    for g in &gs {
                        woke_any |= gate::release(*g);
                    }
                    let c = wk.0.load(Ordering::SeqCst);
                    if c == seen {
                        d.notes.push(Note { prop: "C09", msg: format!("gate(s) {:?} released and their waker(s) called (stored waker present: {}), but the macro's future was not notified", gs, woke_any) });
                    }
                    seen = c;
                }
            }
        }
    }));
    let outcome = match r {
        Ok(o) => o,
        Err(e) => Outcome::Panicked(panic_msg(e)),
    };
    gate::open_all();
    let quiesced = crate::tok::live() == 0 || outcome == Outcome::Cancelled;
    let (l, st) = split_log();
    RunRec { outcome, log: l, stale: st, notes: d.notes, caller_thr, polls, decisions: d.decisions, max_held: d.max_held, quiesced, held_at_result: 0 }
}

struct TaskDriver<'a, 'b> {
    mk: fn() -> LocalFut,
    fut: Option<LocalFut>,
    d: &'b mut Decider<'a>,
    wk: Arc<CountWaker>,
    seen: usize,
    first: bool,
    idle: usize,
    last_progress: usize,
    polls: &'b mut usize,
    rounds: usize,
    awaiting_wake: Option<(Vec<u16>, usize)>,
    /// the root future was dropped (`Sched::cancel_at`); the detached tasks run out, then the driver ends
    cancelled: bool,
}
impl<'a, 'b> Future for TaskDriver<'a, 'b> {
    type Output = Outcome;
    fn poll(self: Pin<&mut Self>, cx: &mut Context<'_>) -> Poll<Outcome> {
        let this = self.get_mut();
        this.rounds += 1;
        if this.cancelled {
            let progress = log::len();
            if progress != this.last_progress {
                this.last_progress = progress;
                this.idle = 0;
            } else {
                this.idle += 1;
            }
            if this.idle >= 6 {
                return Poll::Ready(Outcome::Cancelled);
            }
            cx.waker().wake_by_ref();
            return Poll::Pending;
        }
        if this.fut.is_none() {
            let f = (this.mk)();
            if log::len() != 0 {
                this.d.notes.push(Note { prop: "C09", msg: format!("{} event(s) logged before the future was first polled", log::len()) });
            }
            if this.d.sched.drop_unpolled {
                drop(f);
                return Poll::Ready(Outcome::Done(Out::Tup(vec![])));
            }
            this.fut = Some(Box::pin(log::ROOT.scope(1, f)));
        }
        let c = this.wk.0.load(Ordering::SeqCst);
        if this.first || c > this.seen {
            this.first = false;
            this.seen = c;
            this.awaiting_wake = None;
            *this.polls += 1;
            let waker = Waker::from(this.wk.clone());
            let mut rcx = Context::from_waker(&waker);
            if let Poll::Ready(o) = this.fut.as_mut().unwrap().as_mut().poll(&mut rcx) {
                return Poll::Ready(Outcome::Done(o));
            }
            this.idle = 0;
        } else {
            let progress = log::len();
            if progress != this.last_progress {
                this.last_progress = progress;
                this.idle = 0;
            } else {
                this.idle += 1;
            }
            if this.idle >= 4 {
                this.idle = 0;
                // quiescent: nothing ran, nothing was notified
                if let Some((gs, _)) = this.awaiting_wake.take() {
                    // a release happened, tasks ran to quiescence, the root was never notified although
                    // the model says its branch could progress: probe with one spurious poll
                    *this.polls += 1;
                    let waker = Waker::from(this.wk.clone());
                    let mut rcx = Context::from_waker(&waker);
                    let before = log::len();
                    let r = this.fut.as_mut().unwrap().as_mut().poll(&mut rcx);
                    if let Poll::Ready(o) = r {
                        this.d.notes.push(Note { prop: "C09", msg: format!("after releasing {:?} the macro's future was never notified, yet it completes when polled spuriously (lost wake-up)", gs) });
                        return Poll::Ready(Outcome::Done(o));
                    }
                    if log::len() != before {
                        this.d.notes.push(Note { prop: "C09", msg: format!("after releasing {:?} the macro's future was never notified, yet a spurious poll makes progress (lost wake-up)", gs) });
                        cx.waker().wake_by_ref();
                        return Poll::Pending;
                    }
                }
                if this.d.sched.spurious {
                    *this.polls += 1;
                    let waker = Waker::from(this.wk.clone());
                    let mut rcx = Context::from_waker(&waker);
                    if let Poll::Ready(o) = this.fut.as_mut().unwrap().as_mut().poll(&mut rcx) {
                        this.d.notes.push(Note { prop: "C09", msg: "future became ready on a spurious poll although nothing was released or notified".into() });
                        return Poll::Ready(Outcome::Done(o));
                    }
                }
                if this.d.sched.cancel_at != 0 && this.d.decisions + 1 == this.d.sched.cancel_at {
                    // cancellation at a quiescent point: drop the macro's future, let the detached tasks run out
                    this.fut = None;
                    this.cancelled = true;
                    this.last_progress = log::len();
                    gate::open_all();
                    cx.waker().wake_by_ref();
                    return Poll::Pending;
                }
                match this.d.decide() {
                    Next::Deadlock(m) => return Poll::Ready(Outcome::Deadlock(m)),
                    Next::Released(gs) => {
                        for g in &gs {
                            gate::release(*g);
                        }
                        // whether the root must be notified depends on whether the released branch
                        // reaches its step end; a lost wake-up shows up as quiescence + spurious progress
                        this.awaiting_wake = Some((gs, this.seen));
                    }
                }
            }
        }
        cx.waker().wake_by_ref();
        Poll::Pending
    }
}

pub fn run_async_tasks(case: &Case, exp: &Exp, plan: &Plan, sched: &Sched) -> RunRec {
    setup(case.prog, plan);
    let mk = match case.run {
        Run::Async(f) => f,
        _ => unreachable!(),
    };
    let caller_thr = log::thr();
    let mut d = Decider { exp, tracker: GateTracker::new_for(case.prog, exp, plan, case.kind.is_tasks()), released: HashSet::new(), sched, notes: vec![], decisions: 0, max_held: 0, is_try: case.kind.is_try() };
    let mut polls = 0usize;
    let rt = tokio::runtime::Builder::new_current_thread().enable_time().build().expect("tokio rt");
    let mut other_rt: Option<tokio::runtime::Runtime> = None;
    let mut pre: Option<LocalFut> = None;
    if sched.create_ctx != 0 && !sched.drop_unpolled {
        let made = catch_unwind(AssertUnwindSafe(|| {
            if sched.create_ctx == 2 {
                let o = tokio::runtime::Builder::new_current_thread().enable_time().build().expect("tokio rt");
                let f = {
                    let _g = o.enter();
                    mk()
                };
                other_rt = Some(o);
                f
            } else {
                mk()
            }
        }));
        match made {
            Ok(f) => {
                if log::len() != 0 {
                    d.notes.push(Note { prop: "C09", msg: format!("{} event(s) logged before the future was first polled", log::len()) });
                }
                pre = Some(Box::pin(log::ROOT.scope(1, f)));
            }
            Err(e) => {
                let m = panic_msg(e);
                d.notes.push(Note { prop: "C09", msg: format!("creating the macro's future {} panicked, although nothing may be evaluated before the first poll: {}", if sched.create_ctx == 2 { "inside the context of another runtime" } else { "in synchronous code outside every runtime context" }, m) });
                gate::open_all();
                drop(rt);
                drop(other_rt);
                let quiesced = crate::tok::live() == 0;
                let (l, st) = split_log();
                return RunRec { outcome: Outcome::Panicked(m), log: l, stale: st, notes: d.notes, caller_thr, polls, decisions: 0, max_held: 0, quiesced, held_at_result: 0 };
            }
        }
    }
    let r = catch_unwind(AssertUnwindSafe(|| {
        let drv = TaskDriver { mk, fut: pre, d: &mut d, wk: Arc::new(CountWaker(AtomicUsize::new(0))), seen: 0, first: true, idle: 0, last_progress: 0, polls: &mut polls, rounds: 0, awaiting_wake: None, cancelled: false };
        rt.block_on(drv)
    }));
    let outcome = match r {
        Ok(o) => o,
        Err(e) => Outcome::Panicked(panic_msg(e)),
    };
    gate::open_all();
    // dropping the runtime drops (cancels) every task that is still around
    drop(rt);
    drop(other_rt);
    let quiesced = crate::tok::live() == 0;
    if outcome == Outcome::Cancelled && !quiesced {
        d.notes.push(Note { prop: "C10", msg: format!("{} value token(s) still alive after the macro's future was dropped at a pending point (decision {}), its detached tasks ran out and the runtime was dropped", crate::tok::live(), sched.cancel_at) });
    }
    let (l, st) = split_log();
    RunRec { outcome, log: l, stale: st, notes: d.notes, caller_thr, polls, decisions: d.decisions, max_held: d.max_held, quiesced, held_at_result: 0 }
}

/// Ungated run of an async kind under a given polling context (`Sched::poll_ctx`). Nothing is held back, so the future can
/// complete at once whoever polls it; the run happens on a worker thread, an expiry (`Hung`) goes through the bounded-progress
/// escalation of the engine (an abandoned worker is leaked).
pub fn run_async_ctx(case: &Case, _exp: &Exp, plan: &Plan, sched: &Sched) -> RunRec {
    let base_threads = os_threads();
    setup(case.prog, plan);
    let mk = match case.run {
        Run::Async(f) => f,
        _ => unreachable!(),
    };
    let ctx = sched.poll_ctx;
    let (tx, rx) = std::sync::mpsc::channel::<(u32, Result<Out, String>)>();
    let worker = std::thread::Builder::new().name("main".into()).spawn(move || {
        let thr = log::thr();
        let multi = || tokio::runtime::Builder::new_multi_thread().worker_threads(2).enable_time().build().expect("tokio rt");
        let current = || tokio::runtime::Builder::new_current_thread().enable_time().build().expect("tokio rt");
        let r = catch_unwind(AssertUnwindSafe(|| -> Out {
            match ctx {
                1 => multi().block_on(async { log::ROOT.scope(1, mk()).await }),
                2 => multi().block_on(async { futures::executor::block_on(log::ROOT.scope(1, mk())) }),
                3 => multi().block_on(async { tokio::task::block_in_place(|| futures::executor::block_on(log::ROOT.scope(1, mk()))) }),
                4 => {
                    let rt = current();
                    tokio::task::LocalSet::new().block_on(&rt, log::ROOT.scope(1, mk()))
                }
                5 => {
                    let rt = multi();
                    tokio::task::LocalSet::new().block_on(&rt, log::ROOT.scope(1, mk()))
                }
                6 | 8 => current().block_on(async { log::ROOT.scope(1, mk()).await }),
                // 10 / 11: polled by tokio as a sibling of a future that uses up the task's cooperative-scheduling budget in
                // every poll (a channel with a backlog): tokio resources polled afterwards in the same poll — the join
                // handles of the macro's tasks — answer Pending *without registering the waker* and have to be polled again
                10 | 11 => {
                    let rt = if ctx == 10 { current() } else { multi() };
                    rt.block_on(async {
                        let (tx, mut rx) = tokio::sync::mpsc::unbounded_channel::<u32>();
                        for i in 0..2000u32 {
                            let _ = tx.send(i);
                        }
                        drop(tx);
                        let drain = async move {
                            let mut n = 0u32;
                            while rx.recv().await.is_some() {
                                n += 1;
                            }
                            n
                        };
                        let (_, o) = futures::join!(drain, log::ROOT.scope(1, mk()));
                        o
                    })
                }
                7 => futures::executor::block_on(log::ROOT.scope(1, mk())),
                _ => futures::executor::LocalPool::new().run_until(log::ROOT.scope(1, mk())),
            }
        }));
        let _ = tx.send((thr, r.map_err(panic_msg)));
    });
    let bound = Duration::from_millis(sched.bound_ms.max(1));
    let (caller_thr, outcome) = match rx.recv_timeout(bound) {
        Ok((thr, Ok(o))) => (thr, Outcome::Done(o)),
        Ok((thr, Err(m))) => (thr, Outcome::Panicked(m)),
        Err(_) => (log::thr(), Outcome::Hung(format!("the macro's future did not complete within {:?} under polling context {} although no gate is held", bound, ctx))),
    };
    if !matches!(outcome, Outcome::Hung(_)) {
        if let Ok(h) = worker {
            let _ = h.join();
        }
    }
    let quiesced = if matches!(outcome, Outcome::Hung(_)) { false } else { quiesce(Duration::from_secs(5), base_threads) };
    let (l, st) = split_log();
    RunRec { outcome, log: l, stale: st, notes: vec![], caller_thr, polls: 0, decisions: 0, max_held: 0, quiesced, held_at_result: 0 }
}

/// Stress driver for task kinds: real parallelism on a multi-thread tokio runtime. Gates (if any) are released
/// by a separate thread in priority order as they arrive; nothing here is decided on timing — an expiry is
/// reported as `Hung` and treated as inconclusive by the caller.
pub fn run_async_tasks_mt(case: &Case, exp: &Exp, plan: &Plan, sched: &Sched) -> RunRec {
    let base_threads = os_threads();
    setup(case.prog, plan);
    let mk = match case.run {
        Run::Async(f) => f,
        _ => unreachable!(),
    };
    let caller_thr = log::thr();
    let tracker = GateTracker::new(case.prog, exp, plan);
    let all_gates = tracker.all();
    let done = Arc::new(std::sync::atomic::AtomicBool::new(false));
    let done2 = done.clone();
    let prio = sched.prio.clone();
    let releaser = std::thread::spawn(move || {
        let mut released: HashSet<u16> = HashSet::new();
        let mut n = 0u64;
        while !done2.load(Ordering::SeqCst) {
            let pending: Vec<u16> = gate::arrived().into_iter().filter(|g| !released.contains(g)).collect();
            if let Some(g) = pick(&prio, &pending, 1).first().copied() {
                released.insert(g);
                gate::release(g);
            }
            n += 1;
            if n % 3 == 0 {
                std::thread::sleep(Duration::from_micros(30));
            } else {
                std::thread::yield_now();
            }
        }
    });
    let bound = Duration::from_millis(sched.bound_ms.max(1));
    let rt = tokio::runtime::Builder::new_multi_thread().worker_threads(3).enable_time().build().expect("tokio rt");
    let r = catch_unwind(AssertUnwindSafe(|| {
        rt.block_on(async {
            let fut = mk();
            match tokio::time::timeout(bound, fut).await {
                Ok(o) => Outcome::Done(o),
                Err(_) => Outcome::Hung(format!("no result within {:?} on the multi-thread runtime (gates {:?}, arrived {:?})", bound, all_gates, gate::arrived())),
            }
        })
    }));
    let outcome = match r {
        Ok(o) => o,
        Err(e) => Outcome::Panicked(panic_msg(e)),
    };
    done.store(true, Ordering::SeqCst);
    gate::open_all();
    let _ = releaser.join();
    drop(rt);
    let quiesced = quiesce(Duration::from_secs(5), base_threads);
    let (l, st) = split_log();
    RunRec { outcome, log: l, stale: st, notes: vec![], caller_thr, polls: 0, decisions: 0, max_held: 0, quiesced, held_at_result: 0 }
}
