//! Gates: points at which a probe stops until the controller releases it.
//! Threads block on a Condvar; futures return Pending and store the latest Waker.
use crate::log::{self, K};
use crate::plan;
use std::collections::{HashMap, HashSet};
use std::future::Future;
use std::pin::Pin;
use std::sync::{Condvar, Mutex};
use std::task::{Context, Poll, Waker};
use std::time::{Duration, Instant};

#[derive(Default)]
struct Tab {
    arrived: Vec<u16>,
    released: HashSet<u16>,
    wakers: HashMap<u16, Waker>,
    open_all: bool,
}
static TAB: Mutex<Option<Tab>> = Mutex::new(None);
static CV: Condvar = Condvar::new();

fn with<R>(f: impl FnOnce(&mut Tab) -> R) -> R {
    let mut g = TAB.lock().unwrap_or_else(|e| e.into_inner());
    f(g.get_or_insert_with(Tab::default))
}

pub fn reset() {
    with(|t| *t = Tab::default());
}

/// Blocking gate for OS threads. No-op unless the plan marks `id` as gated.
pub fn block(id: u16) {
    if plan::get(id) & plan::GATE == 0 {
        return;
    }
    log::log(K::Arrive, id, &[]);
    let mut g = TAB.lock().unwrap_or_else(|e| e.into_inner());
    g.get_or_insert_with(Tab::default).arrived.push(id);
    CV.notify_all();
    loop {
        let t = g.as_mut().unwrap();
        if t.open_all || t.released.contains(&id) {
            break;
        }
        g = CV.wait(g).unwrap_or_else(|e| e.into_inner());
    }
    drop(g);
    log::log(K::Pass, id, &[]);
}

/// Releases gate `id`; returns true if a stored async waker was woken.
pub fn release(id: u16) -> bool {
    let w = with(|t| {
        t.released.insert(id);
        t.wakers.remove(&id)
    });
    CV.notify_all();
    match w {
        Some(w) => {
            w.wake();
            true
        }
        None => false,
    }
}

/// Opens every gate (used to unblock stragglers after a verdict was reached).
pub fn open_all() {
    let ws: Vec<Waker> = with(|t| {
        t.open_all = true;
        t.wakers.drain().map(|(_, w)| w).collect()
    });
    CV.notify_all();
    for w in ws {
        w.wake();
    }
}

pub fn arrived() -> Vec<u16> {
    with(|t| t.arrived.clone())
}
pub fn is_released(id: u16) -> bool {
    with(|t| t.open_all || t.released.contains(&id))
}
/// Gates that arrived and were not released yet.
pub fn pending() -> Vec<u16> {
    with(|t| t.arrived.iter().copied().filter(|i| !t.released.contains(i)).collect())
}

/// Controller side: waits (bounded) until `pred(arrived)` holds.
pub fn wait_arrivals(timeout: Duration, pred: impl Fn(&[u16]) -> bool) -> bool {
    let deadline = Instant::now() + timeout;
    let mut g = TAB.lock().unwrap_or_else(|e| e.into_inner());
    loop {
        if pred(&g.get_or_insert_with(Tab::default).arrived) {
            return true;
        }
        let now = Instant::now();
        if now >= deadline {
            return false;
        }
        let (ng, _) = CV.wait_timeout(g, (deadline - now).min(Duration::from_millis(20))).unwrap_or_else(|e| e.into_inner());
        g = ng;
    }
}

/// Generic bounded wait on an arbitrary condition (spin, then short sleeps).
pub fn wait_until(timeout: Duration, cond: impl Fn() -> bool) -> bool {
    let deadline = Instant::now() + timeout;
    let mut n = 0u32;
    loop {
        if cond() {
            return true;
        }
        if Instant::now() >= deadline {
            return false;
        }
        n += 1;
        if n < 200 {
            std::thread::yield_now();
        } else {
            std::thread::sleep(Duration::from_micros(50));
        }
    }
}

/// Async gate: Ready at once unless the plan gates `id`; otherwise Pending until released.
pub struct GateWait {
    id: u16,
    arrived: bool,
}
pub fn gate_wait(id: u16) -> GateWait {
    GateWait { id, arrived: false }
}
impl Future for GateWait {
    type Output = ();
    fn poll(mut self: Pin<&mut Self>, cx: &mut Context<'_>) -> Poll<()> {
        let id = self.id;
        if plan::get(id) & plan::GATE == 0 {
            return Poll::Ready(());
        }
        if !self.arrived {
            self.arrived = true;
            log::log(K::Arrive, id, &[]);
            with(|t| t.arrived.push(id));
            CV.notify_all();
        }
        let ready = with(|t| {
            if t.open_all || t.released.contains(&id) {
                true
            } else {
                t.wakers.insert(id, cx.waker().clone());
                false
            }
        });
        if ready {
            log::log(K::Pass, id, &[]);
            Poll::Ready(())
        } else {
            Poll::Pending
        }
    }
}
