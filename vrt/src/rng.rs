//! Tiny deterministic PRNG (splitmix64) so that runs are replayable from VERIF_SEED.
#[derive(Clone)]
pub struct Rng(pub u64);
impl Rng {
    pub fn new(seed: u64) -> Self {
        Rng(seed ^ 0x9E37_79B9_7F4A_7C15)
    }
    pub fn next(&mut self) -> u64 {
        self.0 = self.0.wrapping_add(0x9E37_79B9_7F4A_7C15);
        let mut z = self.0;
        z = (z ^ (z >> 30)).wrapping_mul(0xBF58_476D_1CE4_E5B9);
        z = (z ^ (z >> 27)).wrapping_mul(0x94D0_49BB_1331_11EB);
        z ^ (z >> 31)
    }
    pub fn below(&mut self, n: usize) -> usize {
        if n == 0 {
            0
        } else {
            (self.next() % n as u64) as usize
        }
    }
    pub fn chance(&mut self, num: u64, den: u64) -> bool {
        self.next() % den < num
    }
    pub fn shuffle<T>(&mut self, v: &mut [T]) {
        for i in (1..v.len()).rev() {
            let j = self.below(i + 1);
            v.swap(i, j);
        }
    }
}
pub fn fnv(data: &[u8]) -> u64 {
    let mut h = 0xcbf2_9ce4_8422_2325u64;
    for b in data {
        h ^= *b as u64;
        h = h.wrapping_mul(0x100_0000_01b3);
    }
    h
}
