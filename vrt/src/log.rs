//! Global append-only event log. The sequence number is taken inside the log mutex, so
//! log order == seq order and the monitor cannot itself be the race.
use std::cell::Cell;
use std::sync::atomic::{AtomicU32, Ordering};
use std::sync::Mutex;

#[derive(Clone, Copy, PartialEq, Eq, Debug, Hash, PartialOrd, Ord)]
pub enum K {
    /// operand / initial-value expression evaluated
    Eval,
    /// callback invoked (h = history of its input)
    Call,
    /// block capture evaluated
    Cap,
    /// snapshot of a `let` name inside a capture block (h = encoded value)
    Snap,
    /// handler expression evaluated
    HndEval,
    /// handler invoked (h = encoded arguments)
    Hnd,
    /// custom joiner invoked (id = arity)
    Join,
    /// gate reached / passed
    Arrive,
    Pass,
    /// logged by the caller right after the macro returned
    Post,
    /// a value produced by a future-returning probe became ready
    Ready,
}

#[derive(Clone, Debug, PartialEq, Eq)]
pub struct Ev {
    /// logged while the harness's root scope (a tokio task-local set around polling the macro's future)
    /// is visible, i.e. in the caller's task rather than in a spawned task
    pub root: bool,
    /// logged by a thread that first logged in an earlier run (a straggler), not part of this run
    pub stale: bool,
    pub seq: u32,
    pub k: K,
    pub id: u16,
    pub thr: u32,
    pub h: Vec<u16>,
}

static LOG: Mutex<Vec<Ev>> = Mutex::new(Vec::new());
static THREADS: Mutex<Vec<Option<String>>> = Mutex::new(Vec::new());
static NEXT_THR: AtomicU32 = AtomicU32::new(0);

tokio::task_local! {
    pub static ROOT: u8;
}
pub fn in_root() -> bool {
    ROOT.try_with(|_| ()).is_ok()
}

static EPOCH: AtomicU32 = AtomicU32::new(1);
thread_local! {
    static THR: Cell<u32> = Cell::new(u32::MAX);
    /// run epoch in which this thread logged first; 0 = harness thread (lives across runs)
    static THR_EPOCH: Cell<u32> = Cell::new(u32::MAX);
}

/// True on its first call in the current run epoch, false afterwards (a jump that an operand takes exactly once per run).
pub fn once_per_run() -> bool {
    static LAST: AtomicU32 = AtomicU32::new(0);
    let cur = EPOCH.load(Ordering::SeqCst);
    LAST.swap(cur, Ordering::SeqCst) != cur
}
/// Starts a new run epoch (called by the executors before every run).
pub fn new_epoch() {
    EPOCH.fetch_add(1, Ordering::SeqCst);
}
/// Marks the calling thread as the harness thread: its events are never stale.
pub fn mark_harness_thread() {
    THR_EPOCH.with(|c| c.set(0));
}
fn is_stale() -> bool {
    THR_EPOCH.with(|c| {
        let cur = EPOCH.load(Ordering::SeqCst);
        let v = c.get();
        if v == u32::MAX {
            c.set(cur);
            false
        } else {
            v != 0 && v != cur
        }
    })
}

/// Index of the current OS thread in the thread table (registered on first use, with its name).
pub fn thr() -> u32 {
    THR.with(|c| {
        let v = c.get();
        if v != u32::MAX {
            return v;
        }
        let mut t = THREADS.lock().unwrap_or_else(|e| e.into_inner());
        let idx = t.len() as u32;
        t.push(std::thread::current().name().map(|s| s.to_owned()));
        NEXT_THR.store(idx + 1, Ordering::Relaxed);
        c.set(idx);
        idx
    })
}

pub fn thread_name(idx: u32) -> Option<String> {
    THREADS.lock().unwrap_or_else(|e| e.into_inner()).get(idx as usize).cloned().flatten()
}

pub fn log(k: K, id: u16, h: &[u16]) {
    let thr = thr();
    let stale = is_stale();
    let mut l = LOG.lock().unwrap_or_else(|e| e.into_inner());
    let seq = l.len() as u32;
    l.push(Ev { root: in_root(), stale, seq, k, id, thr, h: h.to_vec() });
}

pub fn len() -> usize {
    LOG.lock().unwrap_or_else(|e| e.into_inner()).len()
}

pub fn snapshot() -> Vec<Ev> {
    LOG.lock().unwrap_or_else(|e| e.into_inner()).clone()
}

pub fn take() -> Vec<Ev> {
    std::mem::take(&mut *LOG.lock().unwrap_or_else(|e| e.into_inner()))
}

pub fn clear() {
    LOG.lock().unwrap_or_else(|e| e.into_inner()).clear();
}

/// True if some logged event satisfies `f` (evaluated under the log lock).
pub fn any(f: impl Fn(&Ev) -> bool) -> bool {
    LOG.lock().unwrap_or_else(|e| e.into_inner()).iter().any(f)
}
