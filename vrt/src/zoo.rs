//! Zoo corpus runtime: twin functions `m_N` (macro invocation) and `r_N` (the documented method
//! chain written out in plain Rust with the same operand text) are run on the same inputs; their
//! values (Debug strings) and callback traces must be equal.
use crate::log::{self, Ev, K};
use crate::plan;
use crate::report::{arr, esc, obj};
use crate::rng::fnv;
use std::collections::{BTreeMap, HashSet};
use std::fmt::Debug;
use std::panic::{catch_unwind, AssertUnwindSafe};
use std::time::Instant;

fn enc64(x: u64) -> [u16; 4] {
    [(x >> 48) as u16, (x >> 32) as u16, (x >> 16) as u16, x as u16]
}
/// Callback probe: logs the callback id and a hash of its argument's Debug rendering.
pub fn z<T: Debug + ?Sized>(id: u16, v: &T) {
    if crate::alloc::armed() {
        return; // allocation measurement in progress: probes stay silent (and allocation-free)
    }
    let s = format!("{:?}", v);
    log::log(K::Call, id, &enc64(fnv(s.as_bytes())));
    inject(id);
}
/// Callback probe without an observable argument.
pub fn z0(id: u16) {
    if crate::alloc::armed() {
        return;
    }
    log::log(K::Call, id, &[]);
    inject(id);
}
/// Capture marker inside a block operand.
pub fn zc(id: u16) {
    if crate::alloc::armed() {
        return;
    }
    log::log(K::Cap, id, &[]);
    inject(id);
}
/// Operand-expression evaluation marker for non-closure operands: returns its argument.
pub fn ze<T>(id: u16, v: T) -> T {
    elog(id);
    v
}
fn elog(id: u16) {
    if !crate::alloc::armed() {
        log::log(K::Eval, id, &[]);
        inject(id);
    }
}

// fault injection for the zoo probes (C18 sub-run): one probe id panics on its first call, another one parks its thread
// until the harness releases it. Inert unless armed by `c18z`.
static PANIC_AT: std::sync::atomic::AtomicU32 = std::sync::atomic::AtomicU32::new(u32::MAX);
static HOLD_AT: std::sync::atomic::AtomicU32 = std::sync::atomic::AtomicU32::new(u32::MAX);
struct HoldState {
    /// log thread index of the thread parked at the hold
    arrived: Option<u32>,
    released: bool,
    /// the evaluation under test has produced its outcome
    done: bool,
}
static HOLD: std::sync::Mutex<HoldState> = std::sync::Mutex::new(HoldState { arrived: None, released: false, done: false });
static HOLD_CV: std::sync::Condvar = std::sync::Condvar::new();
fn inject(id: u16) {
    use std::sync::atomic::Ordering::SeqCst;
    let id = id as u32;
    if HOLD_AT.load(SeqCst) == id && HOLD_AT.compare_exchange(id, u32::MAX, SeqCst, SeqCst).is_ok() {
        let mut g = HOLD.lock().unwrap_or_else(|e| e.into_inner());
        g.arrived = Some(log::thr());
        HOLD_CV.notify_all();
        let deadline = Instant::now() + std::time::Duration::from_secs(300);
        while !g.released && Instant::now() < deadline {
            g = HOLD_CV.wait_timeout(g, std::time::Duration::from_millis(200)).unwrap_or_else(|e| e.into_inner()).0;
        }
    }
    if PANIC_AT.load(SeqCst) == id && PANIC_AT.compare_exchange(id, u32::MAX, SeqCst, SeqCst).is_ok() {
        panic!("injected@{}", id);
    }
}
pub use crate::alloc::Bag;
// collect types spelled as bare paths (nothing in the type tells a parser where it ends)
pub type VecU = Vec<u32>;
pub type OVec = Option<Vec<u32>>;
pub type RVec = Result<Vec<u32>, u8>;
pub type BagU = Bag<u32>;
pub type OBag = Option<Bag<u32>>;
pub type RBag = Result<Bag<u32>, u8>;
static CLONES: std::sync::atomic::AtomicUsize = std::sync::atomic::AtomicUsize::new(0);
/// A value whose `Clone` is observable (C19: nothing the macro handles is ever cloned).
pub struct CountClone(pub u32);
impl Clone for CountClone {
    fn clone(&self) -> Self {
        CLONES.fetch_add(1, std::sync::atomic::Ordering::SeqCst);
        CountClone(self.0)
    }
}
pub fn reset_clones() {
    CLONES.store(0, std::sync::atomic::Ordering::SeqCst);
}
pub fn clones() -> usize {
    CLONES.load(std::sync::atomic::Ordering::SeqCst)
}
/// Allocation-free iterator source (shape from the plan).
pub struct ArrIter {
    data: [u32; 8],
    pos: usize,
    len: usize,
}
impl Iterator for ArrIter {
    type Item = u32;
    fn next(&mut self) -> Option<u32> {
        if self.pos < self.len {
            self.pos += 1;
            Some(self.data[self.pos - 1])
        } else {
            None
        }
    }
}
pub fn sia(id: u16) -> ArrIter {
    elog(id);
    match plan::get(id) {
        0 => ArrIter { data: [1, 2, 3, 4, 5, 6, 0, 0], pos: 0, len: 6 },
        1 => ArrIter { data: [0; 8], pos: 0, len: 0 },
        2 => ArrIter { data: [7, 0, 0, 0, 0, 0, 0, 0], pos: 0, len: 1 },
        _ => ArrIter { data: [6, 5, 4, 3, 2, 1, 0, 0], pos: 0, len: 7 },
    }
}
pub fn it_bag<I: Iterator<Item = u32>>(i: I) -> Bag<u32> {
    i.collect()
}

/// Sources: their shape comes from the run-time plan (0, 1, 2 ...).
pub fn so(id: u16) -> Option<u32> {
    elog(id);
    match plan::get(id) {
        0 => Some(3),
        1 => None,
        _ => Some(8),
    }
}
pub fn sr(id: u16) -> Result<u32, u8> {
    elog(id);
    match plan::get(id) {
        0 => Ok(4),
        1 => Err(5),
        _ => Ok(9),
    }
}
pub fn si(id: u16) -> std::vec::IntoIter<u32> {
    log::log(K::Eval, id, &[]);
    inject(id);
    match plan::get(id) {
        0 => vec![1, 2, 3, 4, 5, 6],
        1 => vec![],
        2 => vec![7],
        _ => vec![6, 5, 4, 3, 2, 1, 0],
    }
    .into_iter()
}
pub fn sp(id: u16) -> u32 {
    elog(id);
    match plan::get(id) {
        0 => 5,
        1 => 0,
        _ => 12,
    }
}

// async-world sources and helpers ---------------------------------------------------------------
/// Pending points inside the sources of the async worlds. With `STUTTER` on, a source future is `Pending` (self-woken) on
/// its first poll and a source stream before every item and before its end — the same on the macro side and on the
/// reference side of a twin, so value and per-branch traces must still agree. Off: the sources are ready at once.
pub static STUTTER: std::sync::atomic::AtomicBool = std::sync::atomic::AtomicBool::new(false);
pub static STUTTERS: std::sync::atomic::AtomicU64 = std::sync::atomic::AtomicU64::new(0);
pub struct Stut<F> {
    f: F,
    armed: bool,
}
impl<F: std::future::Future + Unpin> std::future::Future for Stut<F> {
    type Output = F::Output;
    fn poll(mut self: std::pin::Pin<&mut Self>, cx: &mut std::task::Context<'_>) -> std::task::Poll<F::Output> {
        if !self.armed && STUTTER.load(std::sync::atomic::Ordering::SeqCst) {
            self.armed = true;
            STUTTERS.fetch_add(1, std::sync::atomic::Ordering::SeqCst);
            cx.waker().wake_by_ref();
            return std::task::Poll::Pending;
        }
        self.armed = true;
        std::pin::Pin::new(&mut self.f).poll(cx)
    }
}
pub struct StutS<S> {
    s: S,
    armed: bool,
}
impl<S: futures::Stream + Unpin> futures::Stream for StutS<S> {
    type Item = S::Item;
    fn poll_next(mut self: std::pin::Pin<&mut Self>, cx: &mut std::task::Context<'_>) -> std::task::Poll<Option<S::Item>> {
        if !self.armed && STUTTER.load(std::sync::atomic::Ordering::SeqCst) {
            self.armed = true;
            STUTTERS.fetch_add(1, std::sync::atomic::Ordering::SeqCst);
            cx.waker().wake_by_ref();
            return std::task::Poll::Pending;
        }
        self.armed = false;
        std::pin::Pin::new(&mut self.s).poll_next(cx)
    }
    fn size_hint(&self) -> (usize, Option<usize>) {
        self.s.size_hint()
    }
}
pub fn sf(id: u16) -> Stut<futures::future::Ready<u32>> {
    Stut { f: futures::future::ready(sp(id)), armed: false }
}
pub fn stf(id: u16) -> Stut<futures::future::Ready<Result<u32, u8>>> {
    Stut { f: futures::future::ready(sr(id)), armed: false }
}
pub fn ss(id: u16) -> StutS<futures::stream::Iter<std::vec::IntoIter<u32>>> {
    StutS { s: futures::stream::iter(si(id)), armed: false }
}
pub fn fut_inc<const ID: u16, F: std::future::Future<Output = u32>>(f: F) -> impl std::future::Future<Output = u32> {
    async move {
        let v = f.await;
        z(ID, &v);
        v.wrapping_add(5)
    }
}
pub fn fut_ok<F: std::future::Future>(f: F) -> impl std::future::Future<Output = Result<F::Output, u8>> {
    async move { Ok::<_, u8>(f.await) }
}

// fn-path / call-expression operand spellings ------------------------------------------------
pub fn inc<const ID: u16>(v: u32) -> u32 {
    z(ID, &v);
    v.wrapping_add(1)
}
pub fn some_even<const ID: u16>(v: u32) -> Option<u32> {
    z(ID, &v);
    if v % 2 == 0 {
        Some(v.wrapping_add(10))
    } else {
        None
    }
}
pub fn ok_small<const ID: u16>(v: u32) -> Result<u32, u8> {
    z(ID, &v);
    if v < 8 {
        Ok(v * 3)
    } else {
        Err(2)
    }
}
pub fn is_big<const ID: u16>(v: &u32) -> bool {
    z(ID, v);
    *v > 2
}
pub fn mk_inc(id: u16) -> impl Fn(u32) -> u32 + Copy + Send + 'static {
    elog(id);
    move |v| {
        z(id, &v);
        v.wrapping_add(2)
    }
}
/// Call expressions that build the callee of a `->` (evaluated wherever the documented `(expr)(value)` stands: once per
/// call of an enclosing wrapper closure, never if that closure is not called).
pub fn mk_p2o(id: u16) -> impl Fn(u32) -> Option<u32> + Copy + Send + 'static {
    elog(id);
    move |v| {
        z(id, &v);
        if v % 3 != 0 {
            Some(v.wrapping_add(1))
        } else {
            None
        }
    }
}
pub fn mk_e2r(id: u16) -> impl Fn(u8) -> Result<u32, u8> + Copy + Send + 'static {
    elog(id);
    move |e| {
        z(id, &e);
        if e > 4 {
            Ok(e as u32)
        } else {
            Err(e.wrapping_add(2))
        }
    }
}
pub fn mk_e2e(id: u16) -> impl Fn(u8) -> u8 + Copy + Send + 'static {
    elog(id);
    move |e| {
        z(id, &e);
        e.wrapping_mul(3)
    }
}
pub fn mk_pred(id: u16) -> impl Fn(&u32) -> bool + Copy + Send + 'static {
    elog(id);
    move |v| {
        z(id, v);
        *v % 2 == 1
    }
}
pub fn it_sum<I: Iterator<Item = u32>>(i: I) -> u32 {
    i.fold(0u32, |a, b| a.wrapping_add(b))
}
pub fn it_vec<I: Iterator<Item = u32>>(i: I) -> Vec<u32> {
    i.collect()
}
pub fn it_first<I: Iterator<Item = u32>>(mut i: I) -> Option<u32> {
    i.next()
}
pub fn it_id<I: Iterator<Item = u32>>(i: I) -> I {
    i
}
pub fn dbg<T: Debug>(t: T) -> String {
    format!("{:?}", t)
}

/// Thread-name probes (nested spawn macros inherit `<caller>_join_<i>` names).
pub fn zt(id: u16) {
    let n = std::thread::current().name().map(|s| s.to_owned()).unwrap_or_else(|| "<unnamed>".into());
    log::log(K::Call, id, &enc64(fnv(n.as_bytes())));
}
pub fn zn(id: u16, name: &str) {
    // expected names are written relative to a caller called "main"; the reference may run on a differently named thread
    let caller = std::thread::current().name().map(|s| s.to_owned()).unwrap_or_else(|| "main".into());
    let actual = match name.strip_prefix("main") {
        Some(rest) => format!("{}{}", caller, rest),
        None => name.to_string(),
    };
    log::log(K::Call, id, &enc64(fnv(actual.as_bytes())));
}
/// Rendezvous of the branches of a nested thread-spawning macro: returns 0 once `parties` callers of the same group are
/// inside at the same time, 1000 if that does not happen within 30 s (the branches were not alive together). Groups are
/// reusable: the n-th arrival waits for arrival ceil(n / parties) * parties.
pub fn rdv(group: u16, parties: usize) -> u64 {
    use std::collections::HashMap;
    use std::sync::{Condvar, Mutex};
    static STATE: Mutex<Option<HashMap<u16, usize>>> = Mutex::new(None);
    static CV: Condvar = Condvar::new();
    let mut g = STATE.lock().unwrap_or_else(|e| e.into_inner());
    let m = g.get_or_insert_with(HashMap::new);
    let c = m.entry(group).or_insert(0);
    *c += 1;
    let need = (*c + parties - 1) / parties * parties;
    CV.notify_all();
    let deadline = std::time::Instant::now() + std::time::Duration::from_secs(30);
    loop {
        let have = g.as_ref().and_then(|m| m.get(&group)).copied().unwrap_or(0);
        if have >= need {
            return 0;
        }
        let now = std::time::Instant::now();
        if now >= deadline {
            return 1000;
        }
        g = CV.wait_timeout(g, deadline - now).unwrap_or_else(|e| e.into_inner()).0;
    }
}
/// Drives a future of a plain value on its own current-thread runtime (async macro nested in a sync one).
/// The runtime lives on a helper thread that carries the caller's thread name, so that this also works
/// when the sync macro itself is being evaluated inside a task of an outer runtime.
pub fn run_async_val<T: Send, F: std::future::Future<Output = T> + Send>(f: F) -> T {
    let name = std::thread::current().name().map(|s| s.to_owned());
    std::thread::scope(|s| {
        let b = std::thread::Builder::new();
        let b = match name {
            Some(n) => b.name(n),
            None => b,
        };
        b.spawn_scoped(s, move || {
            let rt = tokio::runtime::Builder::new_current_thread().enable_time().build().expect("rt");
            rt.block_on(f)
        })
        .expect("helper thread")
        .join()
        .expect("nested runtime panicked")
    })
}
/// Same, on the calling thread (for futures that are not `Send`); must not be called from inside a runtime.
pub fn run_async_local<T, F: std::future::Future<Output = T>>(f: F) -> T {
    let rt = tokio::runtime::Builder::new_current_thread().enable_time().build().expect("rt");
    rt.block_on(f)
}

/// Runs an async twin on a tokio current-thread runtime (so that `tokio::spawn` works).
pub fn run_async<F: std::future::Future<Output = String>>(f: F) -> String {
    let rt = tokio::runtime::Builder::new_current_thread().enable_time().build().expect("rt");
    rt.block_on(f)
}

pub struct Twin {
    pub id: u32,
    pub kind: &'static str,
    pub m: fn() -> String,
    pub r: fn() -> String,
    /// (source id, number of shapes)
    pub srcs: &'static [(u16, u8)],
    /// probe id ranges [lo, hi) per branch
    pub branches: &'static [(u16, u16)],
    pub tags: &'static str,
    pub text: &'static str,
    pub reference: &'static str,
    pub max_id: u16,
}

#[derive(Clone, Debug, PartialEq)]
enum Res {
    Val(String),
    Panic(String),
}
/// The same on a fresh thread with the given name (the same call sites, executed by a differently named caller).
fn run_one_on(name: &str, f: fn() -> String) -> (Res, Vec<Ev>) {
    let h = std::thread::Builder::new().name(name.to_string()).spawn(move || run_one(f)).expect("spawn");
    h.join().unwrap_or_else(|e| (Res::Panic(crate::exec::panic_msg(e)), Vec::new()))
}

fn run_one(f: fn() -> String) -> (Res, Vec<Ev>) {
    let base = crate::exec::os_threads();
    log::new_epoch();
    log::clear();
    let r = catch_unwind(AssertUnwindSafe(f));
    // thread kinds join all their threads before returning, but a panic leaves the unjoined ones behind — possibly not even
    // started yet, so that their first event would be logged (as fresh) into the next run: wait until they are gone
    if r.is_err() {
        let _ = crate::exec::quiesce(std::time::Duration::from_secs(10), base);
    }
    let l = log::take();
    (
        match r {
            Ok(s) => Res::Val(s),
            Err(e) => Res::Panic(crate::exec::panic_msg(e)),
        },
        l.into_iter().filter(|e| !e.stale).collect(),
    )
}

fn branch_of(t: &Twin, id: u16) -> usize {
    t.branches.iter().position(|(lo, hi)| id >= *lo && id < *hi).unwrap_or(usize::MAX)
}
fn per_branch(t: &Twin, l: &[Ev], with_caps: bool) -> BTreeMap<usize, Vec<(K, u16, Vec<u16>)>> {
    let mut m: BTreeMap<usize, Vec<(K, u16, Vec<u16>)>> = BTreeMap::new();
    for e in l {
        if e.k == K::Call || (with_caps && e.k == K::Cap) {
            m.entry(branch_of(t, e.id)).or_default().push((e.k, e.id, e.h.clone()));
        }
    }
    m
}
fn multiset(l: &[Ev], k: K) -> Vec<u16> {
    let mut v: Vec<u16> = l.iter().filter(|e| e.k == k).map(|e| e.id).collect();
    v.sort_unstable();
    v
}
fn show(l: &[Ev]) -> String {
    l.iter().filter(|e| matches!(e.k, K::Call | K::Cap | K::Eval)).map(|e| format!("{:?}({})", e.k, e.id)).collect::<Vec<_>>().join(" ")
}


/// Outcome of one evaluation on a fresh worker thread named `main` (the caller of the macro).
struct WorkerRun {
    res: Option<Res>,
    log: Vec<Ev>,
    caller: u32,
    /// the hold was reached, by this log thread
    hold_thread: Option<u32>,
    /// the outcome arrived while a thread was still parked at the hold
    parked_at_outcome: bool,
    /// the caller itself is parked at the hold: it can never produce its outcome (decided without a clock)
    caller_parked: bool,
    timed_out: bool,
}
static CALLER: std::sync::atomic::AtomicU32 = std::sync::atomic::AtomicU32::new(u32::MAX);
fn run_worker(f: fn() -> String, panic_at: Option<u16>, hold_at: Option<u16>) -> WorkerRun {
    use std::sync::atomic::Ordering::SeqCst;
    let base = crate::exec::os_threads();
    log::new_epoch();
    log::clear();
    {
        let mut g = HOLD.lock().unwrap_or_else(|e| e.into_inner());
        *g = HoldState { arrived: None, released: false, done: false };
    }
    CALLER.store(u32::MAX, SeqCst);
    PANIC_AT.store(panic_at.map(|x| x as u32).unwrap_or(u32::MAX), SeqCst);
    HOLD_AT.store(hold_at.map(|x| x as u32).unwrap_or(u32::MAX), SeqCst);
    let h = std::thread::Builder::new()
        .name("main".into())
        .stack_size(64 << 20)
        .spawn(move || {
            CALLER.store(log::thr(), SeqCst);
            let r = catch_unwind(AssertUnwindSafe(f));
            let mut g = HOLD.lock().unwrap_or_else(|e| e.into_inner());
            g.done = true;
            HOLD_CV.notify_all();
            drop(g);
            r
        })
        .expect("spawn");
    let deadline = Instant::now() + std::time::Duration::from_secs(120);
    let mut caller_parked = false;
    let mut timed_out = false;
    let mut g = HOLD.lock().unwrap_or_else(|e| e.into_inner());
    loop {
        if g.done {
            break;
        }
        if let Some(a) = g.arrived {
            if a == CALLER.load(SeqCst) {
                caller_parked = true;
                break;
            }
        }
        if Instant::now() >= deadline {
            timed_out = true;
            break;
        }
        g = HOLD_CV.wait_timeout(g, std::time::Duration::from_millis(50)).unwrap_or_else(|e| e.into_inner()).0;
    }
    let hold_thread = g.arrived;
    let parked_at_outcome = g.done && g.arrived.is_some();
    g.released = true;
    HOLD_CV.notify_all();
    drop(g);
    PANIC_AT.store(u32::MAX, SeqCst);
    HOLD_AT.store(u32::MAX, SeqCst);
    let caller = CALLER.load(SeqCst);
    if timed_out {
        // no outcome and nobody parked on the caller: not decided here; the worker is left behind
        return WorkerRun { res: None, log: log::take(), caller, hold_thread, parked_at_outcome, caller_parked, timed_out };
    }
    let r = h.join().unwrap_or_else(|e| Err(e));
    if r.is_err() {
        let _ = crate::exec::quiesce(std::time::Duration::from_secs(10), base);
    }
    let l = log::take();
    WorkerRun {
        res: Some(match r {
            Ok(s) => Res::Val(s),
            Err(e) => Res::Panic(crate::exec::panic_msg(e)),
        }),
        log: l.into_iter().filter(|e| !e.stale).collect(),
        caller,
        hold_thread,
        parked_at_outcome,
        caller_parked,
        timed_out,
    }
}

/// C18 over the zoo vocabulary: a panic injected at a callback / operand / capture position of a twin's macro side (positions
/// taken from the log of the same evaluation without injection, so lazily executed iterator and stream closures count where
/// they really run) must come out of the evaluation as a panic, and nothing may run that the undisturbed evaluation would not
/// have run at that point. In the thread kinds, for twins whose steps all have every branch active, the panic must also reach
/// the caller while a callback of a higher-numbered sibling branch of the same or a later step is parked.
fn c18z(twins: &'static [Twin], out: Option<String>, only: Option<u32>, only_plan: Option<String>, only_pos: Option<String>, thorough: bool, trace: bool) {
    let t0 = Instant::now();
    let mut runs = 0u64;
    let mut events = 0u64;
    let mut nontrivial: HashSet<u64> = HashSet::new();
    let mut viols: Vec<String> = Vec::new();
    let mut nviol = 0u64;
    let mut inconclusive: Vec<String> = Vec::new();
    let mut samples: Vec<String> = Vec::new();
    let mut cover: BTreeMap<String, u64> = BTreeMap::new();
    let mut bump = |cover: &mut BTreeMap<String, u64>, k: &str| *cover.entry(k.to_string()).or_insert(0) += 1;
    let seqs = |t: &Twin, l: &[Ev]| -> BTreeMap<usize, Vec<(K, u16)>> {
        let mut m: BTreeMap<usize, Vec<(K, u16)>> = BTreeMap::new();
        for e in l {
            if matches!(e.k, K::Call | K::Cap | K::Eval) {
                m.entry(branch_of(t, e.id)).or_default().push((e.k, e.id));
            }
        }
        m
    };
    let (max_plans, max_pos, max_pairs) = if thorough { (6usize, 24usize, 12usize) } else { (2, 3, 2) };
    'twins: for t in twins {
        if let Some(o) = only {
            if t.id != o {
                continue;
            }
        }
        let has = |x: &str| t.tags.split(',').any(|y| y == x);
        if has("sp:evaluated_during_unwinding") {
            // this twin evaluates its invocation inside a `Drop` during a panic of its own: a second, injected panic there is a
            // panic in a destructor during cleanup — the process aborts, whatever the macro does
            continue;
        }
        let threads = matches!(t.kind, "join_spawn" | "try_join_spawn" | "spawn" | "try_spawn");
        let sequential = matches!(t.kind, "join" | "try_join");
        let single_poller = matches!(t.kind, "join_async" | "try_join_async");
        let mut plans: Vec<Vec<(u16, u8)>> = vec![vec![]];
        for (id, n) in t.srcs {
            let mut next = Vec::new();
            for p in &plans {
                for s in 0..*n {
                    let mut q = p.clone();
                    q.push((*id, s));
                    next.push(q);
                }
            }
            plans = next;
            if plans.len() > 24 {
                plans.truncate(24);
            }
        }
        // spread the plans that are kept over the list (the first ones differ in the last source only)
        if plans.len() > max_plans {
            let n = plans.len();
            plans = (0..max_plans).map(|i| plans[(i * n / max_plans + (t.id as usize % (n / max_plans).max(1))) % n].clone()).collect();
        }
        // async kinds: every plan once with sources that are ready at once and once with pending points inside them
        let modes: &[bool] = if t.kind.contains("async") { &[false, true] } else { &[false] };
        for (p, stutter) in plans.into_iter().flat_map(|p| modes.iter().map(move |m| (p.clone(), *m))) {
            let pstr = format!("{}{}", p.iter().map(|(i, s)| format!("{}:{}", i, s)).collect::<Vec<_>>().join(","), if stutter { "/st" } else { "" });
            STUTTER.store(stutter, std::sync::atomic::Ordering::SeqCst);
            let stutters_before = STUTTERS.load(std::sync::atomic::Ordering::SeqCst);
            if let Some(op) = &only_plan {
                if &pstr != op {
                    continue;
                }
            }
            plan::install(t.max_id, &p);
            let (rv, _) = run_one(t.r);
            if let Res::Panic(_) = &rv {
                bump(&mut cover, "skipped:reference_panics_by_itself");
                continue;
            }
            plan::install(t.max_id, &p);
            let ok = run_worker(t.m, None, None);
            if STUTTERS.load(std::sync::atomic::Ordering::SeqCst) > stutters_before {
                bump(&mut cover, "plans_with_pending_points_inside_sources");
            }
            let ml = ok.log;
            match ok.res {
                Some(Res::Val(_)) => {}
                _ => {
                    // a macro side that panics (or does not return) without any injection is the operator check's finding
                    bump(&mut cover, "skipped:macro_side_does_not_evaluate_without_injection");
                    continue;
                }
            }
            let base_seq = seqs(t, &ml);
            // first occurrence of every probe id
            let mut firsts: Vec<(usize, K, u16, u32)> = Vec::new();
            for (i, e) in ml.iter().enumerate() {
                if matches!(e.k, K::Call | K::Cap | K::Eval) && !firsts.iter().any(|f| f.2 == e.id) {
                    firsts.push((i, e.k, e.id, e.thr));
                }
            }
            if firsts.is_empty() {
                continue;
            }
            let mut order: Vec<usize> = (0..firsts.len()).collect();
            let mut r = crate::rng::Rng::new(fnv(format!("{}|{}", t.id, pstr).as_bytes()));
            r.shuffle(&mut order);
            order.truncate(max_pos);
            for oi in order {
                let (xi, xk, x, _) = firsts[oi];
                let pos = format!("p{}", x);
                if let Some(op) = &only_pos {
                    if op != &pos {
                        continue;
                    }
                }
                plan::install(t.max_id, &p);
                let w = run_worker(t.m, Some(x), None);
                runs += 1;
                events += w.log.len() as u64;
                let mut msgs: Vec<String> = Vec::new();
                if w.timed_out {
                    inconclusive.push(format!("twin {} plan {} panic at {}: no outcome within 120 s", t.id, pstr, x));
                    break 'twins;
                }
                match &w.res {
                    Some(Res::Val(v)) => msgs.push(format!("the panic raised by {:?}({}) did not reach the caller: the evaluation returned {}", xk, x, v)),
                    Some(Res::Panic(m)) => {
                        if (sequential || single_poller) && !has("nest") && !m.contains(&format!("injected@{}", x)) {
                            msgs.push(format!("the caller saw a different panic than the one raised by {:?}({}): {:?}", xk, x, m));
                        }
                    }
                    None => {}
                }
                let got = seqs(t, &w.log);
                for (b, sq) in &got {
                    let full = base_seq.get(b).cloned().unwrap_or_default();
                    if sq.len() > full.len() || full[..sq.len()] != sq[..] {
                        msgs.push(format!("after the panic at {:?}({}) branch {} ran [{}], which is not a prefix of its undisturbed run [{}]", xk, x, b, sq.iter().map(|e| format!("{:?}({})", e.0, e.1)).collect::<Vec<_>>().join(" "), full.iter().map(|e| format!("{:?}({})", e.0, e.1)).collect::<Vec<_>>().join(" ")));
                    }
                }
                let xb = branch_of(t, x);
                if let Some(sq) = got.get(&xb) {
                    if sq.last().map(|e| e.1) != Some(x) {
                        msgs.push(format!("branch {} went on after its panic at {:?}({}): [{}]", xb, xk, x, sq.iter().map(|e| format!("{:?}({})", e.0, e.1)).collect::<Vec<_>>().join(" ")));
                    }
                }
                if sequential || single_poller {
                    let l: Vec<(K, u16)> = w.log.iter().filter(|e| matches!(e.k, K::Call | K::Cap | K::Eval)).map(|e| (e.k, e.id)).collect();
                    if l.last().map(|e| e.1) != Some(x) {
                        msgs.push(format!("user expressions ran after the panic at {:?}({}): [{}]", xk, x, show(&w.log)));
                    }
                    if sequential {
                        let full: Vec<(K, u16)> = ml.iter().filter(|e| matches!(e.k, K::Call | K::Cap | K::Eval)).map(|e| (e.k, e.id)).collect();
                        let cut = full.iter().position(|e| e.1 == x).map(|i| i + 1).unwrap_or(0);
                        if full[..cut] != l[..] {
                            msgs.push(format!("the run with a panic at {:?}({}) is not the undisturbed run cut at that point: [{}] vs [{}]", xk, x, show(&w.log), show(&ml)));
                        }
                    }
                }
                bump(&mut cover, &format!("panic_in:{:?}", xk));
                bump(&mut cover, &format!("kind:{}", t.kind));
                let lazy = ml[..xi].iter().any(|e| e.k == K::Eval && e.id == x);
                if lazy {
                    bump(&mut cover, "panic_in_callback_whose_operand_was_evaluated_earlier");
                }
                nontrivial.insert(fnv(format!("{}|{}|{}", t.id, pstr, x).as_bytes()));
                if trace {
                    println!("TWIN {} [{}] plan {} panic at {:?}({})\n  dsl: {}\n  outcome {:?}\n  trace {}\n  undisturbed {}", t.id, t.kind, pstr, xk, x, t.text, w.res, show(&w.log), show(&ml));
                }
                if !msgs.is_empty() {
                    nviol += 1;
                    if viols.len() < 30 {
                        viols.push(obj(&[
                            ("tag", esc("TWIN")),
                            ("case", esc(&format!("z{}:{}", t.id, t.kind))),
                            ("msg", esc(&msgs.join(" ; "))),
                            ("program", esc(&format!("{}! {{ {} }}", t.kind, t.text))),
                            ("replay", esc(&format!("--only {} --plan {} --pos {}", t.id, pstr, pos))),
                        ]));
                    }
                } else if samples.len() < 2 && (samples.is_empty() || runs % 97 == 1) {
                    samples.push(obj(&[
                        ("macro", esc(&format!("{}! {{ {} }}", t.kind, t.text))),
                        ("inputs", esc(&pstr)),
                        ("panic_at", esc(&format!("{:?}({})", xk, x))),
                        ("outcome", esc(&format!("{:?}", w.res))),
                        ("trace", esc(&show(&w.log))),
                    ]));
                }
            }
            if threads && has("eqdepth") {
                // (X, H): X panics, H parks. first(X) < first(H) in the undisturbed log: X's step is not later than H's (steps
                // are separated by barriers), so holding H cannot keep X from being reached; branch(X) < branch(H): handles
                // are joined in branch order, the caller reaches X's thread before H's.
                let mut pairs: Vec<(u16, K, u16)> = Vec::new();
                for (xi, xk, x, _) in &firsts {
                    for (hi, hk, h, hthr) in &firsts {
                        let (bx, bh) = (branch_of(t, *x), branch_of(t, *h));
                        if *hk == K::Call && *hthr != ok.caller && xi < hi && bx != usize::MAX && bh != usize::MAX && bx < bh {
                            pairs.push((*x, *xk, *h));
                        }
                    }
                }
                r.shuffle(&mut pairs);
                pairs.truncate(max_pairs);
                for (x, xk, hd) in pairs {
                    let pos = format!("p{}h{}", x, hd);
                    if let Some(op) = &only_pos {
                        if op != &pos {
                            continue;
                        }
                    }
                    plan::install(t.max_id, &p);
                    let w = run_worker(t.m, Some(x), Some(hd));
                    runs += 1;
                    events += w.log.len() as u64;
                    let mut msgs: Vec<String> = Vec::new();
                    if w.caller_parked {
                        msgs.push(format!("the caller is left blocked: it runs callback {} of branch {} itself and is parked there, so the panic raised by {:?}({}) in branch {} never reaches it", hd, branch_of(t, hd), xk, x, branch_of(t, x)));
                    } else if w.timed_out {
                        inconclusive.push(format!("twin {} plan {} panic at {} with {} parked: no outcome within 120 s", t.id, pstr, x, hd));
                        break 'twins;
                    } else if let Some(Res::Val(v)) = &w.res {
                        msgs.push(format!("the panic raised by {:?}({}) did not reach the caller: the evaluation returned {}", xk, x, v));
                    }
                    if w.parked_at_outcome && !w.caller_parked {
                        bump(&mut cover, "panic_reached_the_caller_while_a_higher_sibling_callback_was_parked");
                        let lazy = ml.iter().position(|e| e.k == K::Eval && e.id == hd).map(|i| ml[i..].iter().any(|e| e.k == K::Cap) ).unwrap_or(false);
                        if lazy {
                            bump(&mut cover, "parked_callback_ran_in_a_later_step_than_its_operand_was_written_in");
                        }
                    } else if w.hold_thread.is_none() {
                        bump(&mut cover, "hold_not_reached (the panic ended the evaluation in an earlier step)");
                    }
                    nontrivial.insert(fnv(format!("{}|{}|{}|{}", t.id, pstr, x, hd).as_bytes()));
                    if trace {
                        println!("TWIN {} [{}] plan {} panic at {:?}({}) hold at {}\n  dsl: {}\n  outcome {:?} parked_at_outcome={} caller_parked={}\n  trace {}", t.id, t.kind, pstr, xk, x, hd, t.text, w.res, w.parked_at_outcome, w.caller_parked, show(&w.log));
                    }
                    if !msgs.is_empty() {
                        nviol += 1;
                        if viols.len() < 30 {
                            viols.push(obj(&[
                                ("tag", esc("TWIN")),
                                ("case", esc(&format!("z{}:{}", t.id, t.kind))),
                                ("msg", esc(&msgs.join(" ; "))),
                                ("program", esc(&format!("{}! {{ {} }}", t.kind, t.text))),
                                ("replay", esc(&format!("--only {} --plan {} --pos {}", t.id, pstr, pos))),
                            ]));
                        }
                    }
                }
            }
        }
    }
    let cover_s = format!("{{{}}}", cover.iter().map(|(k, v)| format!("{}:{}", esc(k), v)).collect::<Vec<_>>().join(","));
    let rep = obj(&[
        ("prop", esc("C18z")),
        ("runs", runs.to_string()),
        ("events", events.to_string()),
        ("nontrivial", arr(&nontrivial.iter().map(|h| h.to_string()).collect::<Vec<_>>())),
        ("violations", arr(&viols)),
        ("violation_count", nviol.to_string()),
        ("inconclusive", arr(&inconclusive.iter().map(|s| esc(s)).collect::<Vec<_>>())),
        ("samples", arr(&samples)),
        ("cover", cover_s),
        ("wall_ms", t0.elapsed().as_millis().to_string()),
    ]);
    match out {
        Some(p) => std::fs::write(p, rep).expect("write report"),
        None => println!("{}", rep),
    }
    // a run that timed out leaves its worker behind: do not wait for it
    std::process::exit(0);
}

pub fn main(twins: &'static [Twin]) {
    let args: Vec<String> = std::env::args().collect();
    let get = |k: &str| args.iter().position(|a| a == k).and_then(|i| args.get(i + 1)).cloned();
    let prop = get("--prop").unwrap_or_else(|| "C01".into());
    let out = get("--out");
    let only = get("--only").and_then(|s| s.parse::<u32>().ok());
    let trace = args.iter().any(|a| a == "--trace");
    let only_plan = get("--plan");
    std::panic::set_hook(Box::new(|_| {}));
    log::mark_harness_thread();
    if prop == "C18z" {
        return c18z(twins, out, only, only_plan, get("--pos"), get("--tier").as_deref() == Some("thorough"), trace);
    }
    let t0 = Instant::now();
    let mut runs = 0u64;
    let mut events = 0u64;
    let mut nontrivial: HashSet<u64> = HashSet::new();
    let mut viols: Vec<String> = Vec::new();
    let mut nviol = 0u64;
    let mut inconclusive: Vec<String> = Vec::new();
    let mut samples: Vec<String> = Vec::new();
    let mut cover: BTreeMap<String, u64> = BTreeMap::new();
    for t in twins {
        if let Some(o) = only {
            if t.id != o {
                continue;
            }
        }
        let has = |x: &str| t.tags.split(',').any(|y| y == x);
        let want = match prop.as_str() {
            "C02" => has("wrap"),
            "C11" => has("cap") || has("big"),
            "C17" => has("big") || has("nest") || has("clash"),
            // nested spawn macros: inherited thread names `<caller>_join_<i>_join_<j>` (innermost branches log their thread name)
            "C08" => has("nest") && t.tags.contains("spawn"),
            // zoo twins under the thread kinds in which every step has all (>= 2) branches active: no callback may run on
            // the calling thread (iterator adaptors are lazy — a step made of operand-less operators runs the closures
            // recorded in the step before, still on its own thread)
            "C08z" => has("eqdepth") && matches!(t.kind, "join_spawn" | "try_join_spawn" | "spawn" | "try_spawn"),
            // caller variables named like `let`-named branches: every user expression keeps its call-site meaning
            "C04" | "C12" | "C13" => has("scope"),
            _ => true,
        };
        if !want {
            continue;
        }
        // all shape combinations of the sources, capped
        let mut plans: Vec<Vec<(u16, u8)>> = vec![vec![]];
        for (id, n) in t.srcs {
            let mut next = Vec::new();
            for p in &plans {
                for s in 0..*n {
                    let mut q = p.clone();
                    q.push((*id, s));
                    next.push(q);
                }
            }
            plans = next;
            if plans.len() > 24 {
                plans.truncate(24);
            }
        }
        // async kinds: every plan once with sources that are ready at once and once with pending points inside them
        let modes: &[bool] = if t.kind.contains("async") { &[false, true] } else { &[false] };
        for (p, stutter) in plans.into_iter().flat_map(|p| modes.iter().map(move |m| (p.clone(), *m))) {
            let pstr = format!("{}{}", p.iter().map(|(i, s)| format!("{}:{}", i, s)).collect::<Vec<_>>().join(","), if stutter { "/st" } else { "" });
            STUTTER.store(stutter, std::sync::atomic::Ordering::SeqCst);
            let stutters_before = STUTTERS.load(std::sync::atomic::Ordering::SeqCst);
            if let Some(op) = &only_plan {
                if &pstr != op {
                    continue;
                }
            }
            plan::install(t.max_id, &p);
            let (rv, rl) = run_one(t.r);
            if let Res::Panic(m) = &rv {
                // the reference itself panicked (e.g. arithmetic overflow in user code): generator defect, not a verdict —
                // the macro side is not run at all (in the thread kinds its panic would leave detached threads behind)
                inconclusive.push(format!("twin {} plan {}: reference panicked: {}", t.id, pstr, m));
                continue;
            }
            plan::install(t.max_id, &p);
            let (mv, ml) = run_one(t.m);
            runs += 1;
            events += (rl.len() + ml.len()) as u64;
            let mut msgs: Vec<String> = Vec::new();
            if prop == "C19" {
                if let Res::Val(s) = &rv {
                    if s.contains("|allocs=") && !s.ends_with("|allocs=0") {
                        // the user code of this twin allocates by itself: not a case for the allocation claim
                        inconclusive.push(format!("twin {} plan {}: the reference itself allocates ({})", t.id, pstr, s.rsplit('|').next().unwrap_or("")));
                        continue;
                    }
                }
            }
            if let Res::Panic(m) = &rv {
                // the reference itself panicked (e.g. arithmetic): generator defect, not a verdict
                inconclusive.push(format!("twin {} plan {}: reference panicked: {}", t.id, pstr, m));
                continue;
            }
            if rv != mv {
                msgs.push(format!("value differs: macro {:?}, reference {:?}", mv, rv));
            }
            if prop == "C08z" {
                let caller = log::thr();
                if let Some(e) = ml.iter().find(|e| e.k == K::Call && e.thr == caller) {
                    msgs.push(format!("callback {} ran on the calling thread although every step of this invocation has all {} branches active (each runs on its own thread)", e.id, t.branches.len()));
                }
            }
            if has("nest") && t.tags.contains("spawn") && matches!(prop.as_str(), "C17" | "C08") {
                // the same call sites again, executed by a differently named thread: inherited thread names follow the caller
                plan::install(t.max_id, &p);
                let (rv2, rl2) = run_one_on("alt7", t.r);
                plan::install(t.max_id, &p);
                let (mv2, ml2) = run_one_on("alt7", t.m);
                runs += 1;
                *cover.entry("nested_spawn_programs_run_again_from_a_differently_named_thread".to_string()).or_insert(0) += 1;
                if rv2 != mv2 {
                    msgs.push(format!("second run (caller thread alt7): value differs: macro {:?}, reference {:?}", mv2, rv2));
                }
                let (pm2, pr2) = (per_branch(t, &ml2, false), per_branch(t, &rl2, false));
                if pm2 != pr2 {
                    msgs.push("second run of the same call sites from a thread named alt7: the thread names seen by the innermost branches differ from <caller>_join_<i>..".to_string());
                }
            }
            let with_caps = prop == "C11";
            let (pm, pr) = (per_branch(t, &ml, with_caps), per_branch(t, &rl, with_caps));
            // With pending points inside the sources an async try macro may return its failure while an earlier branch is
            // still on its way (`futures::try_join!` stops polling at the first failure; the reference awaits branch after
            // branch): what the cancelled branches did must then be a prefix of what the reference did, nothing more.
            let aborted_early = stutter && t.kind.starts_with("try_") && t.kind.contains("async") && matches!(&rv, Res::Val(s) if s.starts_with("Err(") || s == "None");
            if aborted_early {
                *cover.entry("async_try_runs_that_fail_while_earlier_branches_are_pending (compared as prefixes)".to_string()).or_insert(0) += 1;
                for (b, m) in &pm {
                    let r = pr.get(b).cloned().unwrap_or_default();
                    if m.len() > r.len() || m[..] != r[..m.len()] {
                        msgs.push(format!("callback trace of branch {} is not a prefix of the reference's although the macro returned the failure early: macro {:?}, reference {:?}", b, m.iter().map(|e| e.1).collect::<Vec<_>>(), r.iter().map(|e| e.1).collect::<Vec<_>>()));
                    }
                }
                let sub = |a: Vec<u16>, b: Vec<u16>| -> bool {
                    let mut rest = b;
                    a.iter().all(|x| rest.iter().position(|y| y == x).map(|p| { rest.remove(p); }).is_some())
                };
                if !sub(multiset(&ml, K::Eval), multiset(&rl, K::Eval)) || !sub(multiset(&ml, K::Cap), multiset(&rl, K::Cap)) {
                    msgs.push(format!("operands / captures evaluated by the macro are not among the reference's: macro {:?}, reference {:?}", multiset(&ml, K::Eval), multiset(&rl, K::Eval)));
                }
            }
            if pm != pr && !aborted_early {
                let b = pm.keys().chain(pr.keys()).find(|b| pm.get(*b) != pr.get(*b)).copied().unwrap_or(0);
                msgs.push(format!(
                    "callback trace of branch {} differs: macro [{}], reference [{}]",
                    b,
                    pm.get(&b).map(|v| v.iter().map(|e| format!("{:?}({})", e.0, e.1)).collect::<Vec<_>>().join(" ")).unwrap_or_default(),
                    pr.get(&b).map(|v| v.iter().map(|e| format!("{:?}({})", e.0, e.1)).collect::<Vec<_>>().join(" ")).unwrap_or_default()
                ));
            }
            if multiset(&ml, K::Eval) != multiset(&rl, K::Eval) && !aborted_early {
                msgs.push(format!("operand evaluations differ (multiset): macro {:?}, reference {:?}", multiset(&ml, K::Eval), multiset(&rl, K::Eval)));
            }
            if multiset(&ml, K::Cap) != multiset(&rl, K::Cap) && !aborted_early {
                msgs.push(format!("capture evaluations differ (multiset): macro {:?}, reference {:?}", multiset(&ml, K::Cap), multiset(&rl, K::Cap)));
            }
            if (prop == "C17" || prop == "C11") && has("big") {
                // captures are evaluated by the caller before each step, in branch-then-position order:
                // their global sequence is deterministic in every macro kind
                let seq = |l: &[Ev]| l.iter().filter(|e| e.k == K::Cap).map(|e| e.id).collect::<Vec<_>>();
                if seq(&ml) != seq(&rl) {
                    let (a, b) = (seq(&ml), seq(&rl));
                    let i = a.iter().zip(b.iter()).position(|(x, y)| x != y).unwrap_or(a.len().min(b.len()));
                    msgs.push(format!("block captures are evaluated in a different order than (step, branch, position): first difference at #{}: macro {:?}, reference {:?}", i, a.get(i), b.get(i)));
                }
            }
            if prop == "C11" && !t.kind.contains("spawn") {
                // sequential and non-spawning async kinds: global order of captures relative to callbacks is deterministic
                let seq = |l: &[Ev]| l.iter().filter(|e| matches!(e.k, K::Cap | K::Call)).map(|e| (e.k, e.id)).collect::<Vec<_>>();
                if seq(&ml) != seq(&rl) && t.kind.starts_with("join") && !t.kind.contains("async") || (t.kind == "try_join" && seq(&ml) != seq(&rl)) {
                    msgs.push(format!("global capture/callback order differs: macro [{}], reference [{}]", show(&ml), show(&rl)));
                }
            }
            let ncalls = ml.iter().filter(|e| e.k == K::Call).count();
            let nt = match prop.as_str() {
                "C17" | "C19" | "C08" | "C08z" => true,
                "C02" => ncalls >= 1,
                "C04" | "C12" | "C13" => true,
                "C11" => ml.iter().filter(|e| e.k == K::Cap).count() >= 1,
                _ => ncalls >= 1,
            };
            if nt {
                nontrivial.insert(fnv(format!("{}|{}", t.id, pstr).as_bytes()));
            }
            for tag in t.tags.split(',') {
                if tag.starts_with("op:") || tag.starts_with("w:") || tag.starts_with("sp:") || tag.starts_with("big:") || tag.starts_with("wide:") || tag.starts_with("bounds:") || tag.starts_with("nest:") || tag.starts_with("widenest:") || tag.starts_with("pair:") || tag.starts_with("triple:") || tag.starts_with("scope:") || tag == "shadowed" {
                    *cover.entry(tag.to_string()).or_insert(0) += 1;
                }
            }
            *cover.entry(format!("kind:{}", t.kind)).or_insert(0) += 1;
            if stutter {
                let n = STUTTERS.load(std::sync::atomic::Ordering::SeqCst) - stutters_before;
                if n > 0 {
                    *cover.entry("async_runs_with_pending_points_inside_sources".to_string()).or_insert(0) += 1;
                    *cover.entry("pending_points_taken_inside_source_futures_and_streams".to_string()).or_insert(0) += n;
                }
            }
            if trace {
                println!("TWIN {} [{}] plan {}\n  dsl: {}\n  ref: {}\n  macro value {:?}\n  ref value   {:?}\n  macro trace {}\n  ref trace   {}", t.id, t.kind, pstr, t.text, t.reference, mv, rv, show(&ml), show(&rl));
            }
            if !msgs.is_empty() {
                nviol += 1;
                if viols.len() < 30 {
                    viols.push(obj(&[
                        ("tag", esc("TWIN")),
                        ("case", esc(&format!("z{}:{}", t.id, t.kind))),
                        ("msg", esc(&msgs.join(" ; "))),
                        ("program", esc(&format!("{}! {{ {} }}", t.kind, t.text))),
                        ("reference", esc(t.reference)),
                        ("replay", esc(&format!("--only {} --plan {}", t.id, pstr))),
                    ]));
                }
            } else if nt && (samples.is_empty() || (samples.len() < 2 && runs % 53 == 1)) {
                samples.push(obj(&[
                    ("macro", esc(&format!("{}! {{ {} }}", t.kind, t.text))),
                    ("reference", esc(t.reference)),
                    ("inputs", esc(&pstr)),
                    ("value", esc(&format!("{:?}", mv))),
                    ("trace", esc(&show(&ml))),
                ]));
            }
        }
    }
    if prop == "C19" {
        // monitor self-test: the counting allocator must see a deliberate allocation (if it is installed)
        let (_, n) = crate::alloc::measure(|| std::hint::black_box(vec![1u8; 64]).len());
        cover.insert("control_allocations_counted".into(), n as u64);
    }
    let cover_s = format!("{{{}}}", cover.iter().map(|(k, v)| format!("{}:{}", esc(k), v)).collect::<Vec<_>>().join(","));
    let rep = obj(&[
        ("prop", esc(&prop)),
        ("runs", runs.to_string()),
        ("events", events.to_string()),
        ("nontrivial", arr(&nontrivial.iter().map(|h| h.to_string()).collect::<Vec<_>>())),
        ("violations", arr(&viols)),
        ("violation_count", nviol.to_string()),
        ("inconclusive", arr(&inconclusive.iter().map(|s| esc(s)).collect::<Vec<_>>())),
        ("samples", arr(&samples)),
        ("cover", cover_s),
        ("wall_ms", t0.elapsed().as_millis().to_string()),
    ]);
    match out {
        Some(p) => std::fs::write(p, rep).expect("write report"),
        None => println!("{}", rep),
    }
}
