//! Probe vocabulary, async flavour. Same observable events as the sync flavour; probes that
//! return futures can additionally be gated (Pending until released, storing the latest Waker).
use crate::gate::gate_wait;
use crate::log::{log, K};
use crate::plan::{self, FAIL, PANIC, PANIC_EVAL};
use crate::probes::{enc_args, eval_point, Arg};
use crate::tok::*;
use std::future::Future;
use std::pin::Pin;

pub type BF = Pin<Box<dyn Future<Output = Rv> + Send + 'static>>;
pub type BFV = Pin<Box<dyn Future<Output = Val> + Send + 'static>>;

#[inline]
fn call_point_a(id: u16, h: &[u16]) -> u8 {
    let f = plan::get(id);
    log(K::Call, id, h);
    if f & PANIC != 0 {
        panic!("injected panic at probe {}", id);
    }
    f
}

/// Initial value: a future that is ready at once or pending on gate `id`.
pub fn srca(id: u16) -> BF {
    let f = plan::get(id);
    log(K::Eval, id, &[]);
    if f & (PANIC | PANIC_EVAL) != 0 {
        panic!("injected panic at probe {}", id);
    }
    Box::pin(async move {
        gate_wait(id).await;
        log(K::Ready, id, &[]);
        if f & FAIL != 0 {
            Err(Fail::new(id))
        } else {
            Ok(Val::new(id))
        }
    })
}
/// `|>` FutureExt::map over the `Rv` output; behaves like Result::map on it.
pub fn pa(id: u16) -> impl Fn(Rv) -> Rv + Copy + Send + 'static {
    eval_point(id);
    move |r| match r {
        Ok(v) => {
            call_point_a(id, &v.h);
            Ok(v.push(id))
        }
        Err(e) => Err(e),
    }
}
/// `=>` TryFutureExt::and_then
pub fn qa(id: u16) -> impl Fn(Val) -> BF + Copy + Send + 'static {
    eval_point(id);
    move |v| {
        let f = call_point_a(id, &v.h);
        Box::pin(async move {
            gate_wait(id).await;
            log(K::Ready, id, &[]);
            if f & FAIL != 0 {
                Err(v.fail(id))
            } else {
                Ok(v.push(id))
            }
        })
    }
}
/// `<=` TryFutureExt::or_else
pub fn ra(id: u16) -> impl Fn(Fail) -> BF + Copy + Send + 'static {
    eval_point(id);
    move |e| {
        let f = call_point_a(id, &e.h);
        Box::pin(async move {
            gate_wait(id).await;
            log(K::Ready, id, &[]);
            if f & FAIL != 0 {
                Err(e.push(id))
            } else {
                Ok(e.recover(id))
            }
        })
    }
}
/// `!>` TryFutureExt::map_err
pub fn ea(id: u16) -> impl Fn(Fail) -> Fail + Copy + Send + 'static {
    eval_point(id);
    move |e| {
        call_point_a(id, &e.h);
        e.push(id)
    }
}
/// `??` FutureExt::inspect
pub fn ia(id: u16) -> impl Fn(&Rv) + Copy + Send + 'static {
    eval_point(id);
    move |r| {
        call_point_a(id, &enc_rv(r));
    }
}
/// `->` on a future of `Rv`
pub fn ta<F>(id: u16) -> impl FnOnce(F) -> BF + Send + 'static
where
    F: Future<Output = Rv> + Send + 'static,
{
    eval_point(id);
    move |fut| {
        Box::pin(async move {
            let r = fut.await;
            match r {
                Ok(v) => {
                    let mut h = vec![OKM];
                    h.extend_from_slice(&v.h);
                    let f = call_point_a(id, &h);
                    gate_wait(id).await;
                    log(K::Ready, id, &[]);
                    if f & FAIL != 0 {
                        Err(v.fail(id))
                    } else {
                        Ok(v.push(id))
                    }
                }
                Err(e) => {
                    let mut h = vec![ERRM];
                    h.extend_from_slice(&e.h);
                    call_point_a(id, &h);
                    gate_wait(id).await;
                    log(K::Ready, id, &[]);
                    Err(e.push(id))
                }
            }
        })
    }
}
/// `->` on the plain `Rv` an awaited head yields
pub fn tw(id: u16) -> impl Fn(Rv) -> BF + Copy + Send + 'static {
    eval_point(id);
    move |r| {
        let (f, r2) = match r {
            Ok(v) => {
                let mut h = vec![OKM];
                h.extend_from_slice(&v.h);
                let f = call_point_a(id, &h);
                (f, if f & FAIL != 0 { Err(v.fail(id)) } else { Ok(v.push(id)) })
            }
            Err(e) => {
                let mut h = vec![ERRM];
                h.extend_from_slice(&e.h);
                let f = call_point_a(id, &h);
                (f, Err(e.push(id)))
            }
        };
        let _ = f;
        Box::pin(async move {
            gate_wait(id).await;
            log(K::Ready, id, &[]);
            r2
        })
    }
}
/// `->` on a `Val` inside `=> >>>`
pub fn tva(id: u16) -> impl Fn(Val) -> BF + Copy + Send + 'static {
    qa(id)
}
/// `->` on a `Fail` inside `<= >>>`
pub fn tfa(id: u16) -> impl Fn(Fail) -> BF + Copy + Send + 'static {
    ra(id)
}

/// Async `then` handler body: a (possibly gated) future of the handler value.
pub fn hva(id: u16, args: &[&dyn Arg]) -> BFV {
    let enc = enc_args(args);
    let f = plan::get(id);
    log(K::Hnd, id, &enc);
    if f & PANIC != 0 {
        panic!("injected panic at handler {}", id);
    }
    let mut h = vec![id];
    h.extend(enc);
    Box::pin(async move {
        gate_wait(id).await;
        log(K::Ready, id, &[]);
        Val::from_hist(h)
    })
}
/// Async `and_then` handler body.
pub fn hra(id: u16, args: &[&dyn Arg]) -> BF {
    let f = plan::get(id);
    let fut = hva(id, args);
    Box::pin(async move {
        let v = fut.await;
        if f & FAIL != 0 {
            Err(Fail { h: v.h.clone(), t: Tok::new() })
        } else {
            Ok(v)
        }
    })
}
