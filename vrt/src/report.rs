//! Minimal JSON writer (no serde in the harness).
pub fn esc(s: &str) -> String {
    let mut o = String::with_capacity(s.len() + 2);
    o.push('"');
    for c in s.chars() {
        match c {
            '"' => o.push_str("\\\""),
            '\\' => o.push_str("\\\\"),
            '\n' => o.push_str("\\n"),
            '\r' => o.push_str("\\r"),
            '\t' => o.push_str("\\t"),
            c if (c as u32) < 0x20 => o.push_str(&format!("\\u{:04x}", c as u32)),
            c => o.push(c),
        }
    }
    o.push('"');
    o
}
pub fn arr(items: &[String]) -> String {
    format!("[{}]", items.join(","))
}
pub fn obj(items: &[(&str, String)]) -> String {
    format!("{{{}}}", items.iter().map(|(k, v)| format!("{}:{}", esc(k), v)).collect::<Vec<_>>().join(","))
}
