//! Normal form of macro results, so that observed values and model values can be compared.
use crate::tok::{Fail, Val};

#[derive(Clone, PartialEq, Eq, Debug, Hash)]
pub enum Out {
    V(Vec<u16>),
    F(Vec<u16>),
    Ok(Box<Out>),
    Err(Box<Out>),
    Tup(Vec<Out>),
}

pub trait Norm {
    fn norm(self) -> Out;
}
impl Norm for Val {
    fn norm(self) -> Out {
        Out::V(self.h.clone())
    }
}
impl Norm for Fail {
    fn norm(self) -> Out {
        Out::F(self.h.clone())
    }
}
impl<T: Norm, E: Norm> Norm for Result<T, E> {
    fn norm(self) -> Out {
        match self {
            Ok(v) => Out::Ok(Box::new(v.norm())),
            Err(e) => Out::Err(Box::new(e.norm())),
        }
    }
}
impl<T: Norm> Norm for Option<T> {
    fn norm(self) -> Out {
        match self {
            Some(v) => Out::Ok(Box::new(v.norm())),
            None => Out::Err(Box::new(Out::F(Vec::new()))),
        }
    }
}
macro_rules! norm_tuples {
    ($( ($($n:ident $i:tt),+) ),+) => {$(
        impl<$($n: Norm),+> Norm for ($($n,)+) {
            fn norm(self) -> Out { Out::Tup(vec![$( self.$i.norm() ),+]) }
        }
    )+};
}
norm_tuples!(
    (A 0, B 1),
    (A 0, B 1, C 2),
    (A 0, B 1, C 2, D 3),
    (A 0, B 1, C 2, D 3, E 4),
    (A 0, B 1, C 2, D 3, E 4, F 5),
    (A 0, B 1, C 2, D 3, E 4, F 5, G 6),
    (A 0, B 1, C 2, D 3, E 4, F 5, G 6, H 7)
);
pub fn norm<T: Norm>(t: T) -> Out {
    t.norm()
}

impl Out {
    pub fn show(&self) -> String {
        match self {
            Out::V(h) => format!("V{}", show_hist(h)),
            Out::F(h) => format!("F{}", show_hist(h)),
            Out::Ok(o) => format!("Ok({})", o.show()),
            Out::Err(o) => format!("Err({})", o.show()),
            Out::Tup(v) => format!("({})", v.iter().map(|o| o.show()).collect::<Vec<_>>().join(", ")),
        }
    }
}
pub fn show_hist(h: &[u16]) -> String {
    let mut s = String::from("[");
    for (i, x) in h.iter().enumerate() {
        if i > 0 {
            s.push(' ');
        }
        match *x {
            crate::tok::SEP => s.push('|'),
            crate::tok::ERRM => s.push_str("E:"),
            crate::tok::OKM => s.push_str("O:"),
            crate::tok::STAMP => s.push('*'),
            v => s.push_str(&v.to_string()),
        }
    }
    s.push(']');
    s
}
