//! Counting global allocator: counts allocations made by the current thread while armed.
//! The binary that wants it declares `#[global_allocator] static A: vrt::alloc::Counting = vrt::alloc::Counting;`
use std::alloc::{GlobalAlloc, Layout, System};
use std::cell::Cell;

pub struct Counting;

thread_local! {
    static ARMED: Cell<bool> = const { Cell::new(false) };
    static COUNT: Cell<usize> = const { Cell::new(0) };
    static BYTES: Cell<usize> = const { Cell::new(0) };
}

#[inline]
fn bump(size: usize) {
    let _ = ARMED.try_with(|a| {
        if a.get() {
            let _ = COUNT.try_with(|c| c.set(c.get() + 1));
            let _ = BYTES.try_with(|c| c.set(c.get() + size));
        }
    });
}

unsafe impl GlobalAlloc for Counting {
    unsafe fn alloc(&self, l: Layout) -> *mut u8 {
        bump(l.size());
        System.alloc(l)
    }
    unsafe fn dealloc(&self, p: *mut u8, l: Layout) {
        System.dealloc(p, l)
    }
    unsafe fn alloc_zeroed(&self, l: Layout) -> *mut u8 {
        bump(l.size());
        System.alloc_zeroed(l)
    }
    unsafe fn realloc(&self, p: *mut u8, l: Layout, n: usize) -> *mut u8 {
        bump(n);
        System.realloc(p, l, n)
    }
}

pub fn armed() -> bool {
    ARMED.try_with(|a| a.get()).unwrap_or(false)
}

/// Runs `f` with the counter armed on this thread; returns its value and the number of allocations.
pub fn measure<T>(f: impl FnOnce() -> T) -> (T, usize) {
    COUNT.with(|c| c.set(0));
    ARMED.with(|a| a.set(true));
    let v = f();
    ARMED.with(|a| a.set(false));
    (v, COUNT.with(|c| c.get()))
}

/// Fixed-capacity, stack-only collection usable with collect / partition / unzip.
#[derive(Clone, Copy)]
pub struct Bag<T: Copy + Default> {
    len: usize,
    items: [T; 32],
}
impl<T: Copy + Default> Default for Bag<T> {
    fn default() -> Self {
        Bag { len: 0, items: [T::default(); 32] }
    }
}
impl<T: Copy + Default> Bag<T> {
    pub fn len(&self) -> usize {
        self.len
    }
    pub fn is_empty(&self) -> bool {
        self.len == 0
    }
    pub fn push(&mut self, t: T) {
        if self.len < 32 {
            self.items[self.len] = t;
            self.len += 1;
        }
    }
    pub fn iter(&self) -> std::slice::Iter<'_, T> {
        self.items[..self.len].iter()
    }
}
impl<T: Copy + Default> std::iter::FromIterator<T> for Bag<T> {
    fn from_iter<I: IntoIterator<Item = T>>(i: I) -> Self {
        let mut b = Bag::default();
        for x in i {
            b.push(x);
        }
        b
    }
}
impl<T: Copy + Default> Extend<T> for Bag<T> {
    fn extend<I: IntoIterator<Item = T>>(&mut self, i: I) {
        for x in i {
            self.push(x);
        }
    }
}
impl<T: Copy + Default + std::fmt::Debug> std::fmt::Debug for Bag<T> {
    fn fmt(&self, f: &mut std::fmt::Formatter<'_>) -> std::fmt::Result {
        f.debug_list().entries(self.items[..self.len].iter()).finish()
    }
}
pub struct BagIter<T: Copy + Default> {
    b: Bag<T>,
    pos: usize,
}
impl<T: Copy + Default> Iterator for BagIter<T> {
    type Item = T;
    fn next(&mut self) -> Option<T> {
        if self.pos < self.b.len {
            self.pos += 1;
            Some(self.b.items[self.pos - 1])
        } else {
            None
        }
    }
}
impl<T: Copy + Default> IntoIterator for Bag<T> {
    type Item = T;
    type IntoIter = BagIter<T>;
    fn into_iter(self) -> BagIter<T> {
        BagIter { b: self, pos: 0 }
    }
}
