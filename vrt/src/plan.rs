//! Per-run plan table: probe id -> behaviour flags. Set by the driver before a run.
use std::sync::atomic::{AtomicU8, Ordering};

pub const FAIL: u8 = 1;
pub const PANIC: u8 = 2;
pub const GATE: u8 = 4;
pub const PANIC_EVAL: u8 = 8;
pub const DELAY: u8 = 16;
pub const HOLD: u8 = 32;

pub const MAX_ID: usize = 4096;
#[allow(clippy::declare_interior_mutable_const)]
const Z: AtomicU8 = AtomicU8::new(0);
static PLAN: [AtomicU8; MAX_ID] = [Z; MAX_ID];

#[inline]
pub fn get(id: u16) -> u8 {
    PLAN[id as usize].load(Ordering::Relaxed)
}
pub fn set(id: u16, f: u8) {
    PLAN[id as usize].store(f, Ordering::Relaxed);
}
pub fn or(id: u16, f: u8) {
    PLAN[id as usize].fetch_or(f, Ordering::Relaxed);
}
pub fn clear(max: u16) {
    for i in 0..=(max as usize).min(MAX_ID - 1) {
        PLAN[i].store(0, Ordering::Relaxed);
    }
}
/// A plan as data: list of (id, flags).
pub type Plan = Vec<(u16, u8)>;
pub fn install(max: u16, p: &Plan) {
    clear(max);
    for (id, f) in p {
        or(*id, *f);
    }
}
pub fn flags_of(p: &Plan, id: u16) -> u8 {
    p.iter().filter(|(i, _)| *i == id).fold(0, |a, (_, f)| a | f)
}
