//! Move-only values with provenance. `Tok` is neither Clone nor Copy; creation and drop are
//! counted in a global ledger. Every probe a value passes through appends its id to `h`,
//! so a value is its own history.
use std::sync::atomic::{AtomicI64, AtomicU64, Ordering};

static LIVE: AtomicI64 = AtomicI64::new(0);
static CREATED: AtomicU64 = AtomicU64::new(0);
static DROPPED: AtomicU64 = AtomicU64::new(0);

pub struct Tok(());
impl Tok {
    pub fn new() -> Tok {
        LIVE.fetch_add(1, Ordering::SeqCst);
        CREATED.fetch_add(1, Ordering::SeqCst);
        Tok(())
    }
}
impl Default for Tok {
    fn default() -> Self {
        Tok::new()
    }
}
impl Drop for Tok {
    fn drop(&mut self) {
        LIVE.fetch_sub(1, Ordering::SeqCst);
        DROPPED.fetch_add(1, Ordering::SeqCst);
    }
}
pub fn live() -> i64 {
    LIVE.load(Ordering::SeqCst)
}
pub fn created() -> u64 {
    CREATED.load(Ordering::SeqCst)
}
pub fn dropped() -> u64 {
    DROPPED.load(Ordering::SeqCst)
}

/// Separators used when several values are folded into one history (handlers, snapshots).
pub const SEP: u16 = 0xFFFF;
pub const ERRM: u16 = 0xFFFE;
pub const OKM: u16 = 0xFFFD;
pub const STAMP: u16 = 0xFFF0;

pub struct Val {
    pub h: Vec<u16>,
    pub t: Tok,
}
pub struct Fail {
    pub h: Vec<u16>,
    pub t: Tok,
}
pub type Rv = Result<Val, Fail>;

impl Val {
    pub fn new(id: u16) -> Val {
        Val { h: vec![id], t: Tok::new() }
    }
    pub fn from_hist(h: Vec<u16>) -> Val {
        Val { h, t: Tok::new() }
    }
    pub fn push(mut self, id: u16) -> Val {
        self.h.push(id);
        self
    }
    pub fn fail(self, id: u16) -> Fail {
        let mut h = self.h;
        h.push(id);
        Fail { h, t: self.t }
    }
}
impl Fail {
    pub fn new(id: u16) -> Fail {
        Fail { h: vec![id], t: Tok::new() }
    }
    pub fn push(mut self, id: u16) -> Fail {
        self.h.push(id);
        self
    }
    pub fn recover(self, id: u16) -> Val {
        let mut h = self.h;
        h.push(id);
        Val { h, t: self.t }
    }
}

/// Encodes an `Rv` as a flat history (used for inspect callbacks, snapshots, handler args).
pub fn enc_rv(r: &Rv) -> Vec<u16> {
    match r {
        Ok(v) => {
            let mut h = vec![OKM];
            h.extend_from_slice(&v.h);
            h
        }
        Err(f) => {
            let mut h = vec![ERRM];
            h.extend_from_slice(&f.h);
            h
        }
    }
}
