//! Reference interpreter of the documented semantics over a program description
//! (DESIGN.md appendix C). Independent of join_impl: no shared code.
use crate::desc::*;
use crate::out::Out;
use crate::plan::{flags_of, Plan, FAIL, PANIC, PANIC_EVAL};
use crate::tok::{ERRM, OKM, SEP, STAMP};

#[derive(Clone, Debug, PartialEq, Eq)]
pub struct Mv {
    pub ok: bool,
    pub h: Vec<u16>,
}
impl Mv {
    pub fn enc(&self) -> Vec<u16> {
        let mut v = vec![if self.ok { OKM } else { ERRM }];
        v.extend_from_slice(&self.h);
        v
    }
    pub fn out(&self) -> Out {
        if self.ok {
            Out::Ok(Box::new(Out::V(self.h.clone())))
        } else {
            Out::Err(Box::new(Out::F(self.h.clone())))
        }
    }
    fn push(mut self, id: u16) -> Mv {
        self.h.push(id);
        self
    }
}

#[derive(Clone, Debug, Default)]
pub struct BrStep {
    pub branch: usize,
    /// capture prefix of this branch in this step, in order: (cap id, snaps, hoisted operand id)
    pub caps: Vec<u16>,
    pub snaps: Vec<(u16, Vec<u16>)>,
    pub cap_evals: Vec<u16>,
    /// operand evaluations that happen while the chain runs (multiset)
    pub evals: Vec<u16>,
    /// callback invocations in order, with the history of their input
    pub calls: Vec<(u16, Vec<u16>)>,
    pub end: Option<Mv>,
    /// the injected panic fired in this branch-step (events after it do not exist)
    pub cut: bool,
    /// did the injected panic fire inside the capture prefix
    pub cut_in_caps: bool,
}

#[derive(Clone, Debug, Default)]
pub struct StepExp {
    pub brs: Vec<BrStep>,
    pub joiner_arity: Option<usize>,
}

#[derive(Clone, Debug, Default)]
pub struct Exp {
    pub steps: Vec<StepExp>,
    /// acceptable results (one, except for async try kinds with several failing branches)
    pub outs: Vec<Out>,
    pub panics: bool,
    /// async try kinds: a sibling of the panicking branch fails in the same step, so `try_join!` may
    /// return that failure (outs) before the panic position is ever reached
    pub panic_optional: bool,
    /// (step, branch) of the injected panic if it fires in a chain / capture; handler panics have step = usize::MAX
    pub panic_at: Option<(usize, usize)>,
    pub fail_step: Option<usize>,
    pub hnd_eval: bool,
    pub hnd: Option<(u16, Vec<u16>)>,
}

struct Ctx<'a> {
    plan: &'a Plan,
    bs: BrStep,
    panicked: bool,
    /// Option flavour: a failing value has no payload
    opt: bool,
}
impl<'a> Ctx<'a> {
    fn fl(&self, id: u16) -> u8 {
        flags_of(self.plan, id)
    }
    /// operand evaluation inside the running chain (not hoisted)
    fn eval(&mut self, a: &Act) {
        if self.panicked || a.cap != 0 {
            return;
        }
        self.bs.evals.push(a.id);
        if self.fl(a.id) & PANIC_EVAL != 0 {
            self.panicked = true;
        }
    }
    fn call(&mut self, id: u16, h: Vec<u16>) -> bool {
        if self.panicked {
            return false;
        }
        self.bs.calls.push((id, h));
        if self.fl(id) & PANIC != 0 {
            self.panicked = true;
            return false;
        }
        true
    }
}

fn run_chain(acts: &'static [Act], mut cur: Option<Mv>, cx: &mut Ctx) -> Option<Mv> {
    for a in acts {
        if cx.panicked {
            return cur;
        }
        let fail = cx.fl(a.id) & FAIL != 0;
        match a.op {
            Op::Src | Op::SrcAwait | Op::Or => {
                // src/alt: evaluated as an expression (Eval is its action point)
                let made = if a.cap != 0 {
                    // hoisted: was evaluated in the capture prefix
                    Mv { ok: !fail, h: vec![a.id] }
                } else {
                    cx.bs.evals.push(a.id);
                    if cx.fl(a.id) & (PANIC | PANIC_EVAL) != 0 {
                        cx.panicked = true;
                        return cur;
                    }
                    Mv { ok: !fail, h: vec![a.id] }
                };
                cur = Some(match (a.op, cur.take()) {
                    (Op::Src, _) | (Op::SrcAwait, _) => made,
                    (_, Some(c)) => {
                        if c.ok {
                            c
                        } else {
                            made
                        }
                    }
                    (_, None) => made,
                });
            }
            Op::Map | Op::ThenVV => {
                cx.eval(a);
                let c = cur.take().unwrap();
                cur = Some(if c.ok {
                    if !cx.call(a.id, c.h.clone()) {
                        return Some(c);
                    }
                    c.push(a.id)
                } else {
                    c
                });
            }
            Op::AndThen | Op::ThenV => {
                cx.eval(a);
                let c = cur.take().unwrap();
                cur = Some(if c.ok {
                    if !cx.call(a.id, c.h.clone()) {
                        return Some(c);
                    }
                    let mut c = c.push(a.id);
                    c.ok = !fail;
                    c
                } else {
                    c
                });
            }
            Op::OrElse | Op::ThenF => {
                cx.eval(a);
                let c = cur.take().unwrap();
                cur = Some(if !c.ok {
                    if !cx.call(a.id, c.h.clone()) {
                        return Some(c);
                    }
                    let mut c = if cx.opt { Mv { ok: true, h: vec![a.id] } } else { c.push(a.id) };
                    c.ok = !fail;
                    c
                } else {
                    c
                });
            }
            Op::MapErr | Op::ThenFF => {
                cx.eval(a);
                let c = cur.take().unwrap();
                cur = Some(if !c.ok {
                    if !cx.call(a.id, c.h.clone()) {
                        return Some(c);
                    }
                    c.push(a.id)
                } else {
                    c
                });
            }
            Op::Inspect | Op::ThenR => {
                cx.eval(a);
                let c = cur.take().unwrap();
                if !cx.call(a.id, c.enc()) {
                    return Some(c);
                }
                cur = Some(c);
            }
            Op::Then | Op::ThenW => {
                cx.eval(a);
                let c = cur.take().unwrap();
                if !cx.call(a.id, c.enc()) {
                    return Some(c);
                }
                let was_ok = c.ok;
                let mut c = c.push(a.id);
                c.ok = was_ok && !fail;
                cur = Some(c);
            }
            Op::WAndThen | Op::WMap => {
                let c = cur.take().unwrap();
                cur = Some(if c.ok {
                    // closure runs with the unwrapped value; inner starts with a ThenV/ThenVV
                    let r = run_chain(a.inner, Some(c), cx);
                    match r {
                        Some(r) => r,
                        None => return None,
                    }
                } else {
                    c
                });
            }
            Op::WOrElse | Op::WMapErr => {
                let c = cur.take().unwrap();
                cur = Some(if !c.ok {
                    match run_chain(a.inner, Some(c), cx) {
                        Some(r) => r,
                        None => return None,
                    }
                } else {
                    c
                });
            }
            Op::WInspect => {
                let c = cur.take().unwrap();
                // closure sees &value; inner is a single ThenR (returns ())
                let _ = run_chain(a.inner, Some(c.clone()), cx);
                cur = Some(c);
            }
            Op::Filter | Op::ThenB => {
                cx.eval(a);
                let c = cur.take().unwrap();
                cur = Some(if c.ok {
                    if !cx.call(a.id, c.h.clone()) {
                        return Some(c);
                    }
                    let mut c = c;
                    c.ok = !fail;
                    c
                } else {
                    c
                });
            }
            Op::WFilter => {
                let c = cur.take().unwrap();
                cur = Some(if c.ok {
                    // the closure sees &value and yields bool (inner = one ThenB)
                    match run_chain(a.inner, Some(c.clone()), cx) {
                        Some(r) => {
                            let mut c = c;
                            c.ok = r.ok;
                            c
                        }
                        None => return None,
                    }
                } else {
                    c
                });
            }
        }
        if cx.opt {
            if let Some(c) = cur.as_mut() {
                if !c.ok {
                    c.h.clear();
                }
            }
        }
    }
    cur
}

fn collect_caps(acts: &'static [Act], out: &mut Vec<(u16, &'static [Snap], u16)>) {
    // position order; a wrapper's own position precedes the positions of its inner actions
    for a in acts {
        if a.cap != 0 {
            out.push((a.cap, a.snaps, a.id));
        }
        collect_caps(a.inner, out);
    }
}

pub fn depth_of(b: &Branch) -> usize {
    b.steps.len()
}

pub fn run(prog: &Prog, kind: Kind, hk: Option<HK>, plan: &Plan) -> Exp {
    let n = prog.branches.len();
    let maxd = prog.branches.iter().map(depth_of).max().unwrap_or(0);
    let is_try = kind.is_try();
    let mut vals: Vec<Option<Mv>> = vec![None; n];
    let mut exp = Exp::default();
    let fl = |id: u16| flags_of(plan, id);

    // handler expression is evaluated once, before the steps
    if let Some(h) = &prog.handler {
        if hk.is_some() {
            exp.hnd_eval = true;
            if fl(h.id) & PANIC_EVAL != 0 {
                exp.panics = true;
                exp.panic_at = Some((usize::MAX, 0));
                return exp;
            }
        }
    }

    'steps: for k in 0..maxd {
        let active: Vec<usize> = (0..n).filter(|b| depth_of(&prog.branches[*b]) > k).collect();
        let mut st = StepExp::default();
        let mut brs: Vec<BrStep> = active.iter().map(|b| BrStep { branch: *b, ..Default::default() }).collect();
        // (a) capture prefix
        for (ai, b) in active.iter().enumerate() {
            let mut caps = Vec::new();
            collect_caps(prog.branches[*b].steps[k], &mut caps);
            for (cid, snaps, opid) in caps {
                brs[ai].caps.push(cid);
                if fl(cid) & PANIC != 0 {
                    brs[ai].cut = true;
                    brs[ai].cut_in_caps = true;
                    exp.panics = true;
                    exp.panic_at = Some((k, *b));
                    st.brs = brs;
                    exp.steps.push(st);
                    break 'steps;
                }
                for s in snaps {
                    let v = vals[s.branch as usize].clone().expect("snap of unbound name");
                    brs[ai].snaps.push((s.id, v.enc()));
                }
                brs[ai].cap_evals.push(opid);
                if fl(opid) & PANIC_EVAL != 0
                    || (fl(opid) & PANIC != 0 && is_expr_probe(prog, opid))
                {
                    brs[ai].cut = true;
                    brs[ai].cut_in_caps = true;
                    exp.panics = true;
                    exp.panic_at = Some((k, *b));
                    st.brs = brs;
                    exp.steps.push(st);
                    break 'steps;
                }
            }
        }
        // (b) joiner
        if active.len() > 1 && prog.joiner != Joiner::None {
            st.joiner_arity = Some(active.len());
        }
        // (c) chains
        let mut panicked_here = false;
        for (ai, b) in active.iter().enumerate() {
            let mut cx = Ctx { plan, bs: std::mem::take(&mut brs[ai]), panicked: false, opt: prog.opt };
            let end = run_chain(prog.branches[*b].steps[k], vals[*b].take(), &mut cx);
            cx.bs.end = end.clone();
            if cx.panicked {
                cx.bs.cut = true;
                panicked_here = true;
                exp.panics = true;
                exp.panic_at = Some((k, *b));
            }
            vals[*b] = end;
            brs[ai] = cx.bs;
        }
        // joiner stamps (not for thread kinds: they pass JoinHandles through the joiner)
        if st.joiner_arity.is_some() && !kind.is_threads() && !panicked_here {
            let all_ok = active.iter().all(|b| vals[*b].as_ref().map(|v| v.ok).unwrap_or(false));
            for b in &active {
                if let Some(v) = vals[*b].as_mut() {
                    let stamp = if kind.is_async() && is_try {
                        // `jnta!` (try_join!-like): only successful values pass through it
                        v.ok
                    } else if prog.joiner == Joiner::Transposed {
                        // `jnt!` returns the first error untouched
                        all_ok
                    } else {
                        true
                    };
                    if stamp {
                        v.h.push(STAMP);
                    }
                }
            }
            for (ai, b) in active.iter().enumerate() {
                brs[ai].end = vals[*b].clone();
            }
        }
        st.brs = brs;
        if panicked_here && kind.is_async() && is_try {
            let pb = exp.panic_at.map(|p| p.1);
            for b in st.brs.iter().filter(|b| Some(b.branch) != pb) {
                if let Some(e) = b.end.as_ref().filter(|e| !e.ok) {
                    exp.panic_optional = true;
                    let o = Out::Err(Box::new(Out::F(e.h.clone())));
                    if !exp.outs.contains(&o) {
                        exp.outs.push(o);
                    }
                }
            }
        }
        exp.steps.push(st);
        if panicked_here {
            break;
        }
        if is_try && active.iter().any(|b| !vals[*b].as_ref().unwrap().ok) {
            exp.fail_step = Some(k);
            break;
        }
    }
    if exp.panics {
        return exp;
    }
    // result
    if let Some(k) = exp.fail_step {
        let failing: Vec<&Mv> = exp.steps[k].brs.iter().filter_map(|b| b.end.as_ref()).filter(|v| !v.ok).collect();
        if kind.is_async() {
            for f in failing {
                let o = Out::Err(Box::new(Out::F(f.h.clone())));
                if !exp.outs.contains(&o) {
                    exp.outs.push(o);
                }
            }
        } else {
            exp.outs.push(Out::Err(Box::new(Out::F(failing[0].h.clone()))));
        }
        return exp;
    }
    let finals: Vec<Mv> = vals.into_iter().map(|v| v.unwrap()).collect();
    let handler = prog.handler.as_ref().and_then(|h| hk.map(|k| (h, k)));
    if is_try {
        // all Ok here
        match handler {
            None => {
                let t: Vec<Out> = finals.iter().map(|v| Out::V(v.h.clone())).collect();
                let inner = if t.len() == 1 { t.into_iter().next().unwrap() } else { Out::Tup(t) };
                exp.outs.push(Out::Ok(Box::new(inner)));
            }
            Some((h, k)) => {
                let mut enc = Vec::new();
                for v in &finals {
                    enc.push(SEP);
                    enc.extend_from_slice(&v.h);
                }
                exp.hnd = Some((h.id, enc.clone()));
                if fl(h.id) & PANIC != 0 {
                    exp.panics = true;
                    exp.panic_at = Some((usize::MAX, 0));
                    return exp;
                }
                let mut hh = vec![h.id];
                hh.extend(enc);
                let failing = k == HK::AndThen && fl(h.id) & FAIL != 0;
                exp.outs.push(if failing { Out::Err(Box::new(Out::F(if prog.opt { Vec::new() } else { hh }))) } else { Out::Ok(Box::new(Out::V(hh))) });
            }
        }
    } else {
        match handler {
            None => {
                let t: Vec<Out> = finals.iter().map(|v| v.out()).collect();
                exp.outs.push(if t.len() == 1 { t.into_iter().next().unwrap() } else { Out::Tup(t) });
            }
            Some((h, _)) => {
                let mut enc = Vec::new();
                for v in &finals {
                    enc.push(SEP);
                    enc.extend(v.enc());
                }
                exp.hnd = Some((h.id, enc.clone()));
                if fl(h.id) & PANIC != 0 {
                    exp.panics = true;
                    exp.panic_at = Some((usize::MAX, 0));
                    return exp;
                }
                let mut hh = vec![h.id];
                hh.extend(enc);
                exp.outs.push(Out::V(hh));
            }
        }
    }
    exp
}

/// Is `id` a probe whose action point is its own evaluation (src / alt)?
fn is_expr_probe(prog: &Prog, id: u16) -> bool {
    fn walk(acts: &[Act], id: u16) -> bool {
        acts.iter().any(|a| (a.id == id && matches!(a.op, Op::Src | Op::SrcAwait | Op::Or)) || walk(a.inner, id))
    }
    prog.branches.iter().any(|b| b.steps.iter().any(|s| walk(s, id)))
}

/// Static facts about a probe id.
#[derive(Clone, Copy, Debug, PartialEq, Eq)]
pub enum Role {
    Probe(Op),
    Cap,
    Snap,
    Handler,
}
#[derive(Clone, Copy, Debug)]
pub struct Meta {
    pub role: Role,
    pub branch: usize,
    pub step: usize,
    pub pos: usize,
    /// is the operand a hoisted block (its Eval belongs to the capture prefix)
    pub hoisted: bool,
    /// nesting depth inside wrappers
    pub depth: usize,
}
pub fn index(prog: &Prog) -> Vec<Option<Meta>> {
    let mut m: Vec<Option<Meta>> = vec![None; prog.max_id as usize + 1];
    fn walk(acts: &[Act], b: usize, k: usize, pos: &mut usize, depth: usize, m: &mut Vec<Option<Meta>>) {
        for a in acts {
            let p = *pos;
            *pos += 1;
            if a.id != 0 {
                m[a.id as usize] = Some(Meta { role: Role::Probe(a.op), branch: b, step: k, pos: p, hoisted: a.cap != 0, depth });
            }
            if a.cap != 0 {
                m[a.cap as usize] = Some(Meta { role: Role::Cap, branch: b, step: k, pos: p, hoisted: true, depth });
                for s in a.snaps {
                    m[s.id as usize] = Some(Meta { role: Role::Snap, branch: b, step: k, pos: p, hoisted: true, depth });
                }
            }
            walk(a.inner, b, k, pos, depth + 1, m);
        }
    }
    for (b, br) in prog.branches.iter().enumerate() {
        for (k, st) in br.steps.iter().enumerate() {
            let mut pos = 0;
            walk(st, b, k, &mut pos, 0, &mut m);
        }
    }
    if let Some(h) = &prog.handler {
        m[h.id as usize] = Some(Meta { role: Role::Handler, branch: usize::MAX, step: usize::MAX, pos: 0, hoisted: false, depth: 0 });
    }
    m
}
