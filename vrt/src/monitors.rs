//! The oracles. Each takes the recorded run (event log, outcome, executor notes) and the
//! model's expectation and returns tagged findings; a check only reports the tags that
//! belong to its property.
use crate::desc::*;
use crate::exec::{Note, Outcome, RunRec};
use crate::log::{thread_name, Ev, K};
use crate::model::{Exp, Meta, Role};
use std::collections::HashMap;

fn note(v: &mut Vec<Note>, prop: &'static str, msg: String) {
    v.push(Note { prop, msg });
}

fn step_of(idx: &[Option<Meta>], id: u16) -> Option<(usize, usize)> {
    idx.get(id as usize).and_then(|m| m.as_ref()).filter(|m| m.step != usize::MAX).map(|m| (m.step, m.branch))
}

fn is_step_event(e: &Ev) -> bool {
    matches!(e.k, K::Eval | K::Call | K::Cap | K::Snap | K::Arrive | K::Pass | K::Ready)
}

pub fn check(case: &Case, idx: &[Option<Meta>], exp: &Exp, rec: &RunRec) -> Vec<Note> {
    let mut v: Vec<Note> = rec.notes.clone();
    let kind = case.kind;
    let log = &rec.log;

    // ---- outcome ------------------------------------------------------------------------
    match (&rec.outcome, exp.panics) {
        (Outcome::Done(o), false) => {
            if !exp.outs.contains(o) {
                note(&mut v, "RES", format!("result {} but the model expects {}", o.show(), exp.outs.iter().map(|o| o.show()).collect::<Vec<_>>().join(" or ")));
            }
        }
        (Outcome::Done(o), true) if exp.panic_optional && exp.outs.contains(o) => {}
        (Outcome::Done(o), true) => {
            note(&mut v, "C18", format!("a panic was injected at {:?} but the macro returned {}", exp.panic_at, o.show()));
        }
        (Outcome::Panicked(m), false) => {
            note(&mut v, "PANIC", format!("unexpected panic: {}", m));
            note(&mut v, "RES", format!("unexpected panic: {} (model expects {})", m, exp.outs.iter().map(|o| o.show()).collect::<Vec<_>>().join(" or ")));
        }
        (Outcome::Panicked(_), true) => {}
        (Outcome::Hung(m), _) => {
            note(&mut v, "HUNG", m.clone());
        }
        (Outcome::Deadlock(m), _) => {
            if !rec.notes.iter().any(|n| n.prop == "C18") {
                note(&mut v, "C09", format!("deadlock: {}", m));
            }
        }
        (Outcome::Cancelled, _) => {}
    }
    // a cancelled run (the harness dropped the macro's future at a pending point) is a prefix of the full run: nothing is
    // demanded to have happened, but whatever happened must be a prefix of what the model says
    let cancelled = rec.outcome == Outcome::Cancelled;
    let hung = matches!(rec.outcome, Outcome::Hung(_) | Outcome::Deadlock(_) | Outcome::Cancelled);

    // ---- C03: step barrier over the whole log ---------------------------------------------
    let mut max_step: Option<(usize, u16)> = None;
    for e in log.iter().filter(|e| is_step_event(e)) {
        if let Some((s, _)) = step_of(idx, e.id) {
            if let Some((ms, mid)) = max_step {
                if s < ms {
                    note(&mut v, "C03", format!("event {:?}({}) of step {} logged after event of probe {} of step {}", e.k, e.id, s, mid, ms));
                    break;
                }
            }
            if max_step.map(|(ms, _)| s > ms).unwrap_or(true) {
                max_step = Some((s, e.id));
            }
        }
    }

    // ---- C06 / C18: nothing after the failing / panicking step ------------------------------
    let last_step = exp.steps.len().saturating_sub(1);
    let stop = exp.fail_step.is_some() || (exp.panics && exp.panic_at.map(|p| p.0 != usize::MAX).unwrap_or(false));
    if stop {
        if let Some(e) = log.iter().find(|e| is_step_event(e) && step_of(idx, e.id).map(|(s, _)| s > last_step).unwrap_or(false)) {
            let tag = if exp.panics { "C18" } else { "C06" };
            note(&mut v, tag, format!("event {:?}({}) of step {:?} although step {} {}", e.k, e.id, step_of(idx, e.id).map(|s| s.0), last_step, if exp.panics { "panicked" } else { "failed" }));
        }
        if let Some(e) = log.iter().find(|e| e.k == K::Hnd) {
            let tag = if exp.panics { "C18" } else { "C06" };
            note(&mut v, tag, format!("handler {} called although step {} {}", e.id, last_step, if exp.panics { "panicked" } else { "failed" }));
        }
    }

    // ---- per (step, branch) sequences and multisets (C10, SEQ, C06 completeness) -----------
    // observed, grouped
    let mut obs_calls: HashMap<(usize, usize), Vec<(u16, Vec<u16>)>> = HashMap::new();
    let mut obs_evals: HashMap<(usize, usize), Vec<u16>> = HashMap::new();
    let mut obs_caps: HashMap<usize, Vec<u16>> = HashMap::new();
    let mut obs_snaps: Vec<(u16, Vec<u16>)> = Vec::new();
    for e in log {
        match e.k {
            K::Call => {
                if let Some(sb) = step_of(idx, e.id) {
                    obs_calls.entry(sb).or_default().push((e.id, e.h.clone()));
                } else {
                    note(&mut v, "C10", format!("Call of unknown probe id {}", e.id));
                }
            }
            K::Eval => {
                if let Some(sb) = step_of(idx, e.id) {
                    obs_evals.entry(sb).or_default().push(e.id);
                } else {
                    note(&mut v, "C10", format!("Eval of unknown probe id {}", e.id));
                }
            }
            K::Cap if e.h.is_empty() => {
                if let Some((s, _)) = step_of(idx, e.id) {
                    obs_caps.entry(s).or_default().push(e.id);
                }
            }
            K::Snap => obs_snaps.push((e.id, e.h.clone())),
            _ => {}
        }
    }
    let async_try_fail = kind.is_async() && exp.fail_step.is_some();
    let mut exp_snaps: Vec<(u16, Vec<u16>)> = Vec::new();
    for (k, st) in exp.steps.iter().enumerate() {
        let relaxed_step = !hung && ((exp.panics && k == last_step) || (async_try_fail && k == last_step));
        let mut exp_caps: Vec<u16> = Vec::new();
        for b in &st.brs {
            exp_caps.extend(&b.caps);
            exp_snaps.extend(b.snaps.iter().cloned());
            let key = (k, b.branch);
            let oc = obs_calls.remove(&key).unwrap_or_default();
            let mut oe = obs_evals.remove(&key).unwrap_or_default();
            let mut ee: Vec<u16> = b.evals.iter().chain(b.cap_evals.iter()).copied().collect();
            oe.sort_unstable();
            ee.sort_unstable();
            // the panicking branch itself is exact (the model cut it); siblings / cancelled branches may be prefixes
            let exact = !cancelled && (!relaxed_step || (exp.panics && b.cut && !kind.is_async()));
            if hung && !cancelled {
                continue;
            }
            if exact {
                if oc != b.calls {
                    let same_ids = oc.iter().map(|c| c.0).collect::<Vec<_>>() == b.calls.iter().map(|c| c.0).collect::<Vec<_>>();
                    let mut oids: Vec<u16> = oc.iter().map(|c| c.0).collect();
                    let mut eids: Vec<u16> = b.calls.iter().map(|c| c.0).collect();
                    oids.sort_unstable();
                    eids.sort_unstable();
                    if oids != eids {
                        note(&mut v, "C10", format!("step {} branch {}: callbacks invoked {:?}, model expects {:?}", k, b.branch, oc.iter().map(|c| c.0).collect::<Vec<_>>(), b.calls.iter().map(|c| c.0).collect::<Vec<_>>()));
                        if exp.fail_step == Some(k) && !kind.is_async() && oids.len() < eids.len() {
                            note(&mut v, "C06", format!("step {} (the failing step) branch {} did not run to its end: callbacks {:?}, model expects {:?}", k, b.branch, oids, eids));
                        }
                    } else if same_ids {
                        let d = oc.iter().zip(b.calls.iter()).find(|(a, b)| a.1 != b.1).unwrap();
                        note(&mut v, "SEQ", format!("step {} branch {}: callback {} saw input {} but the model expects {}", k, b.branch, d.0 .0, crate::out::show_hist(&d.0 .1), crate::out::show_hist(&d.1 .1)));
                    } else {
                        note(&mut v, "SEQ", format!("step {} branch {}: callback order {:?}, model expects {:?}", k, b.branch, oc.iter().map(|c| c.0).collect::<Vec<_>>(), b.calls.iter().map(|c| c.0).collect::<Vec<_>>()));
                    }
                }
                if oe != ee {
                    note(&mut v, "C10", format!("step {} branch {}: operand evaluations {:?}, model expects {:?}", k, b.branch, oe, ee));
                }
            } else {
                // prefix / subset
                if oc.len() > b.calls.len() || oc.iter().zip(b.calls.iter()).any(|(a, b)| a != b) {
                    note(&mut v, "C10", format!("step {} branch {}: callbacks {:?} are not a prefix of the model's {:?}", k, b.branch, oc.iter().map(|c| c.0).collect::<Vec<_>>(), b.calls.iter().map(|c| c.0).collect::<Vec<_>>()));
                }
                let mut rest = ee.clone();
                for x in &oe {
                    if let Some(p) = rest.iter().position(|y| y == x) {
                        rest.remove(p);
                    } else {
                        note(&mut v, "C10", format!("step {} branch {}: operand {} evaluated more often than the model expects", k, b.branch, x));
                    }
                }
            }
        }
        // ---- C11: capture order within the step and capture prefix -------------------------
        let oc = obs_caps.remove(&k).unwrap_or_default();
        let panicked_in_caps = exp.panics && k == last_step && st.brs.iter().any(|b| b.cut_in_caps);
        if !hung {
            if oc != exp_caps {
                note(&mut v, "C11", format!("step {}: block captures evaluated in order {:?}, model expects {:?}", k, oc, exp_caps));
            }
            let _ = panicked_in_caps;
        } else if cancelled && (oc.len() > exp_caps.len() || oc[..] != exp_caps[..oc.len()]) {
            note(&mut v, "C11", format!("step {}: block captures evaluated before the cancellation {:?} are not a prefix of the model's {:?}", k, oc, exp_caps));
        }
    }
    if !hung || cancelled {
        for (key, c) in obs_calls {
            note(&mut v, "C10", format!("step {} branch {}: callbacks {:?} invoked but the model expects that step not to run", key.0, key.1, c.iter().map(|c| c.0).collect::<Vec<_>>()));
        }
        for (key, c) in obs_evals {
            note(&mut v, "C10", format!("step {} branch {}: operands {:?} evaluated but the model expects that step not to run", key.0, key.1, c));
        }
        for (k, c) in obs_caps {
            note(&mut v, "C11", format!("step {}: captures {:?} evaluated but the model expects that step not to run", k, c));
        }
    }
    // capture prefix: every Cap / hoisted Eval / Snap of step k lies after all events of step k-1
    // (covered by the barrier) and before every non-capture event of step k
    {
        let mut first_chain_event: HashMap<usize, (u32, u16)> = HashMap::new();
        for e in log.iter() {
            let hoisted = idx.get(e.id as usize).and_then(|m| m.as_ref()).map(|m| m.hoisted).unwrap_or(false);
            let chain_ev = match e.k {
                K::Call | K::Arrive | K::Pass | K::Ready => true,
                K::Eval => !hoisted,
                _ => false,
            };
            if let Some((s, _)) = step_of(idx, e.id) {
                if chain_ev {
                    first_chain_event.entry(s).or_insert((e.seq, e.id));
                } else if matches!(e.k, K::Cap | K::Snap) || (e.k == K::Eval && hoisted) {
                    if let Some((seq, id)) = first_chain_event.get(&s) {
                        note(&mut v, "C11", format!("step {}: capture event {:?}({}) at seq {} comes after chain event of probe {} at seq {}", s, e.k, e.id, e.seq, id, seq));
                        break;
                    }
                }
            }
        }
    }

    // ---- C12: snapshots of `let` names -------------------------------------------------------
    if !hung && !exp.panics {
        let mut o = obs_snaps.clone();
        let mut e = exp_snaps.clone();
        o.sort();
        e.sort();
        if o != e {
            let d = o.iter().find(|x| !e.contains(x)).or_else(|| e.iter().find(|x| !o.contains(x)));
            note(&mut v, "C12", format!("name snapshots differ from the model; first difference at snap id {:?}: observed {:?}, expected {:?}", d.map(|d| d.0), o.iter().filter(|x| Some(x.0) == d.map(|d| d.0)).map(|x| crate::out::show_hist(&x.1)).collect::<Vec<_>>(), e.iter().filter(|x| Some(x.0) == d.map(|d| d.0)).map(|x| crate::out::show_hist(&x.1)).collect::<Vec<_>>()));
        }
    }

    // ---- C13: handler ------------------------------------------------------------------------
    if !hung {
        let hnd: Vec<&Ev> = log.iter().filter(|e| e.k == K::Hnd).collect();
        let hev = log.iter().filter(|e| e.k == K::HndEval).count();
        match &exp.hnd {
            Some((id, args)) => {
                if hnd.len() != 1 || hnd[0].id != *id {
                    note(&mut v, "C13", format!("handler {} called {} time(s), expected exactly once", id, hnd.len()));
                } else if &hnd[0].h != args {
                    note(&mut v, "C13", format!("handler {} received {} but the model expects {}", id, crate::out::show_hist(&hnd[0].h), crate::out::show_hist(args)));
                }
            }
            None => {
                if !hnd.is_empty() && !exp.panics {
                    note(&mut v, "C13", format!("handler {} called although the model says it must not be", hnd[0].id));
                }
            }
        }
        if hev != exp.hnd_eval as usize && !(exp.panics && hev <= 1) {
            note(&mut v, "C10", format!("handler expression evaluated {} time(s), expected {}", hev, exp.hnd_eval as usize));
        }
    }

    // ---- C16: joiner calls -------------------------------------------------------------------
    if !hung && !exp.panics {
        let oj: Vec<u16> = log.iter().filter(|e| e.k == K::Join).map(|e| e.id).collect();
        let ej: Vec<u16> = exp.steps.iter().filter_map(|s| s.joiner_arity).map(|a| a as u16).collect();
        if oj != ej {
            note(&mut v, "C16", format!("custom joiner invoked with arities {:?}, model expects {:?} (one call per step with more than one active branch)", oj, ej));
        }
        // each joiner call lies inside its step: after the step's captures, before the next step
        let mut ji = 0usize;
        for (k, st) in exp.steps.iter().enumerate() {
            if st.joiner_arity.is_none() {
                continue;
            }
            if let Some(j) = log.iter().filter(|e| e.k == K::Join).nth(ji) {
                let bad = log.iter().find(|e| {
                    is_step_event(e)
                        && step_of(idx, e.id).map(|(s, _)| (s > k && e.seq < j.seq) || (s < k && e.seq > j.seq)).unwrap_or(false)
                });
                if let Some(b) = bad {
                    note(&mut v, "C16", format!("joiner call #{} (step {}) at seq {} is on the wrong side of event {:?}({})", ji, k, j.seq, b.k, b.id));
                }
            }
            ji += 1;
        }
    }

    // ---- C08: threads --------------------------------------------------------------------------
    if kind.is_threads() && !hung {
        let caller = rec.caller_thr;
        let caller_name = thread_name(caller);
        for (k, st) in exp.steps.iter().enumerate() {
            let n = st.brs.len();
            let mut thr_of_branch: HashMap<usize, u32> = HashMap::new();
            for e in log.iter() {
                let hoisted = idx.get(e.id as usize).and_then(|m| m.as_ref()).map(|m| m.hoisted).unwrap_or(false);
                let chain_ev = match e.k {
                    K::Call | K::Arrive | K::Pass => {
                        // callbacks of hoisted operands still run in the chain
                        true
                    }
                    K::Eval => !hoisted,
                    _ => false,
                };
                if !chain_ev {
                    continue;
                }
                if let Some((s, b)) = step_of(idx, e.id) {
                    if s != k {
                        continue;
                    }
                    match thr_of_branch.get(&b) {
                        None => {
                            thr_of_branch.insert(b, e.thr);
                        }
                        Some(t) if *t != e.thr => {
                            note(&mut v, "C08", format!("step {} branch {} ran on two threads ({} and {})", k, b, t, e.thr));
                        }
                        _ => {}
                    }
                }
            }
            if n > 1 {
                let mut seen: HashMap<u32, usize> = HashMap::new();
                for (b, t) in &thr_of_branch {
                    if *t == caller {
                        note(&mut v, "C08", format!("step {} has {} active branches but branch {} ran on the calling thread", k, n, b));
                    }
                    if let Some(ob) = seen.insert(*t, *b) {
                        note(&mut v, "C08", format!("step {}: branches {} and {} share thread {}", k, ob, b, t));
                    }
                    let want = match &caller_name {
                        Some(c) => format!("{}_join_{}", c, b),
                        None => format!("join_{}", b),
                    };
                    let got = thread_name(*t);
                    if got.as_deref() != Some(want.as_str()) && *t != caller {
                        note(&mut v, "C08", format!("step {} branch {}: thread is named {:?}, expected {:?}", k, b, got, want));
                    }
                }
            } else {
                for (b, t) in &thr_of_branch {
                    if *t != caller {
                        note(&mut v, "C08", format!("step {} has a single active branch ({}) but it ran on thread {:?} instead of the calling thread {:?}", k, b, thread_name(*t), caller_name));
                    }
                }
            }
        }
        if !exp.panics {
            // "the caller continues only after every thread of the step has finished": the caller's continuation is
            // either the code after the macro (Post) or the next step (its captures run on the caller, its chains are
            // spawned by the caller) - nothing of step k+1 may be logged before the last chain event of a step-k thread
            for (k, st) in exp.steps.iter().enumerate() {
                if st.brs.len() < 2 {
                    continue;
                }
                let last_k = log.iter().filter(|e| is_step_event(e) && matches!(e.k, K::Call | K::Eval | K::Arrive | K::Pass) && step_of(idx, e.id).map(|(s, _)| s == k).unwrap_or(false)).map(|e| e.seq).max();
                let first_next = log.iter().filter(|e| is_step_event(e) && step_of(idx, e.id).map(|(s, _)| s > k).unwrap_or(false)).min_by_key(|e| e.seq);
                if let (Some(l), Some(f)) = (last_k, first_next) {
                    if f.seq < l {
                        note(&mut v, "C08", format!("the caller went on to a later step (event {:?}({}) at seq {}) before the last event of a step-{} thread (seq {})", f.k, f.id, f.seq, k, l));
                    }
                }
            }
            if let Some(p) = log.iter().find(|e| e.k == K::Post) {
                if let Some(late) = log.iter().find(|e| e.seq > p.seq && is_step_event(e)) {
                    note(&mut v, "C08", format!("the caller continued (Post at seq {}) before event {:?}({}) of a step thread at seq {}", p.seq, late.k, late.id, late.seq));
                }
            }
        }
    }

    // ---- C10: ledger ----------------------------------------------------------------------------
    if !rec.quiesced && !hung {
        note(&mut v, "C10", format!("{} value token(s) still alive after the run ended (leak or straggler)", crate::tok::live()));
    }
    v
}

/// Hash of the global order of chain events: a measure of distinct interleavings observed.
pub fn order_hash(log: &[Ev]) -> u64 {
    let mut bytes = Vec::with_capacity(log.len() * 3);
    for e in log.iter().filter(|e| matches!(e.k, K::Call | K::Eval | K::Cap | K::Pass)) {
        bytes.push(e.k as u8);
        bytes.extend_from_slice(&e.id.to_le_bytes());
    }
    crate::rng::fnv(&bytes)
}

pub fn role_name(m: &Meta) -> &'static str {
    match m.role {
        Role::Probe(_) => "probe",
        Role::Cap => "cap",
        Role::Snap => "snap",
        Role::Handler => "handler",
    }
}
