//! Probe vocabulary, sync flavour. Every probe captures only its id (Copy + Send + 'static).
//! `Eval` is logged when the operand expression is evaluated, `Call` when the callback runs.
use crate::gate;
use crate::log::{log, K};
use crate::plan::{self, DELAY, FAIL, HOLD, PANIC, PANIC_EVAL};
use crate::tok::*;

#[inline]
fn delay(f: u8, id: u16) {
    if f & DELAY != 0 {
        // small deterministic-length busy wait / yield mix keyed on the id
        for _ in 0..((id as u32 * 7) % 5) {
            std::thread::yield_now();
        }
        std::thread::sleep(std::time::Duration::from_micros(((id as u64) * 37) % 150));
    }
}

/// Operand-expression evaluation point.
#[inline]
pub fn eval_point(id: u16) {
    let f = plan::get(id);
    log(K::Eval, id, &[]);
    if f & PANIC_EVAL != 0 {
        panic!("injected panic (eval) at probe {}", id);
    }
}

/// Action point of a callback: gate, delay, log, panic.
#[inline]
pub fn call_point(id: u16, h: &[u16]) -> u8 {
    let f = plan::get(id);
    gate::block(id);
    delay(f, id);
    log(K::Call, id, h);
    if f & PANIC != 0 {
        panic!("injected panic at probe {}", id);
    }
    f
}

/// Initial value.
pub fn src(id: u16) -> Rv {
    let f = plan::get(id);
    // the token exists before the first event of a branch is logged, so "ledger empty" implies
    // that no branch that has logged anything is still running
    let v = if f & FAIL != 0 { Err(Fail::new(id)) } else { Ok(Val::new(id)) };
    gate::block(id);
    delay(f, id);
    log(K::Eval, id, &[]);
    if f & (PANIC | PANIC_EVAL) != 0 {
        panic!("injected panic at probe {}", id);
    }
    v
}
/// Operand of `<|` (Result::or): an eagerly evaluated alternative.
pub fn alt(id: u16) -> Rv {
    src(id)
}
/// `|>` Result::map
pub fn p(id: u16) -> impl Fn(Val) -> Val + Copy + Send + 'static {
    eval_point(id);
    move |v| {
        call_point(id, &v.h);
        v.push(id)
    }
}
/// `=>` Result::and_then
pub fn q(id: u16) -> impl Fn(Val) -> Rv + Copy + Send + 'static {
    eval_point(id);
    move |v| {
        let f = call_point(id, &v.h);
        if f & FAIL != 0 {
            Err(v.fail(id))
        } else {
            Ok(v.push(id))
        }
    }
}
/// `<=` Result::or_else
pub fn r(id: u16) -> impl Fn(Fail) -> Rv + Copy + Send + 'static {
    eval_point(id);
    move |e| {
        let f = call_point(id, &e.h);
        if f & FAIL != 0 {
            Err(e.push(id))
        } else {
            Ok(e.recover(id))
        }
    }
}
/// `!>` Result::map_err
pub fn e(id: u16) -> impl Fn(Fail) -> Fail + Copy + Send + 'static {
    eval_point(id);
    move |e| {
        call_point(id, &e.h);
        e.push(id)
    }
}
/// `??` inspect
pub fn i(id: u16) -> impl Fn(&Rv) + Copy + Send + 'static {
    eval_point(id);
    move |r| {
        call_point(id, &enc_rv(r));
    }
}
/// `->` on an `Rv`
pub fn t(id: u16) -> impl Fn(Rv) -> Rv + Copy + Send + 'static {
    eval_point(id);
    move |r| match r {
        Ok(v) => {
            let f = call_point(id, &enc_rv_parts(true, &v.h));
            if f & FAIL != 0 {
                Err(v.fail(id))
            } else {
                Ok(v.push(id))
            }
        }
        Err(e) => {
            call_point(id, &enc_rv_parts(false, &e.h));
            Err(e.push(id))
        }
    }
}
fn enc_rv_parts(ok: bool, h: &[u16]) -> Vec<u16> {
    let mut v = vec![if ok { OKM } else { ERRM }];
    v.extend_from_slice(h);
    v
}
/// `->` on a `Val`, yielding `Rv` (first action inside `=> >>>`)
pub fn tv(id: u16) -> impl Fn(Val) -> Rv + Copy + Send + 'static {
    eval_point(id);
    move |v| {
        let f = call_point(id, &v.h);
        if f & FAIL != 0 {
            Err(v.fail(id))
        } else {
            Ok(v.push(id))
        }
    }
}
/// `->` on a `Val`, yielding `Val` (inside `|> >>>`)
pub fn tvv(id: u16) -> impl Fn(Val) -> Val + Copy + Send + 'static {
    eval_point(id);
    move |v| {
        call_point(id, &v.h);
        v.push(id)
    }
}
/// `->` on a `Fail`, yielding `Rv` (inside `<= >>>`)
pub fn tf(id: u16) -> impl Fn(Fail) -> Rv + Copy + Send + 'static {
    eval_point(id);
    move |e| {
        let f = call_point(id, &e.h);
        if f & FAIL != 0 {
            Err(e.push(id))
        } else {
            Ok(e.recover(id))
        }
    }
}
/// `->` on a `Fail`, yielding `Fail` (inside `!> >>>`)
pub fn tff(id: u16) -> impl Fn(Fail) -> Fail + Copy + Send + 'static {
    eval_point(id);
    move |e| {
        call_point(id, &e.h);
        e.push(id)
    }
}
/// `->` on a `&Rv`, yielding `()` (inside sync `?? >>>`)
pub fn tr(id: u16) -> impl Fn(&Rv) + Copy + Send + 'static {
    eval_point(id);
    move |r| {
        call_point(id, &enc_rv(r));
    }
}

// ---- Option flavour (`Option<Val>`): a failure has no payload ---------------------------------------
pub type Ov = Option<Val>;
pub fn enc_ov(o: &Ov) -> Vec<u16> {
    match o {
        Some(v) => {
            let mut h = vec![OKM];
            h.extend_from_slice(&v.h);
            h
        }
        None => vec![ERRM],
    }
}
pub fn srco(id: u16) -> Ov {
    src(id).ok()
}
pub fn alto(id: u16) -> Ov {
    src(id).ok()
}
/// `=>` Option::and_then
pub fn qo(id: u16) -> impl Fn(Val) -> Ov + Copy + Send + 'static {
    eval_point(id);
    move |v| {
        let f = call_point(id, &v.h);
        if f & FAIL != 0 {
            None
        } else {
            Some(v.push(id))
        }
    }
}
/// `?>` Option::filter
pub fn fo(id: u16) -> impl Fn(&Val) -> bool + Copy + Send + 'static {
    eval_point(id);
    move |v| call_point(id, &v.h) & FAIL == 0
}
/// `<=` Option::or_else
pub fn ro(id: u16) -> impl Fn() -> Ov + Copy + Send + 'static {
    eval_point(id);
    move || {
        let f = call_point(id, &[]);
        if f & FAIL != 0 {
            None
        } else {
            Some(Val::new(id))
        }
    }
}
/// `??` inspect
pub fn io(id: u16) -> impl Fn(&Ov) + Copy + Send + 'static {
    eval_point(id);
    move |o| {
        call_point(id, &enc_ov(o));
    }
}
/// `->` on an `Ov`
pub fn to(id: u16) -> impl Fn(Ov) -> Ov + Copy + Send + 'static {
    eval_point(id);
    move |o| {
        let f = call_point(id, &enc_ov(&o));
        match o {
            Some(v) if f & FAIL == 0 => Some(v.push(id)),
            _ => None,
        }
    }
}
/// `->` on a `Val`, yielding `Ov` (inside `=> >>>`)
pub fn tvo(id: u16) -> impl Fn(Val) -> Ov + Copy + Send + 'static {
    qo(id)
}
/// `->` on a `&Val`, yielding bool (inside `?> >>>`)
pub fn tbo(id: u16) -> impl Fn(&Val) -> bool + Copy + Send + 'static {
    fo(id)
}
/// `->` on a `&Ov`, yielding `()` (inside `?? >>>`)
pub fn tro(id: u16) -> impl Fn(&Ov) + Copy + Send + 'static {
    io(id)
}
pub fn snapo(id: u16, o: &Ov) {
    log(K::Snap, id, &enc_ov(o));
}
impl Arg for Ov {
    fn enc(&self) -> Vec<u16> {
        enc_ov(self)
    }
}
/// Body of a sync `and_then` handler, Option flavour.
pub fn hro(id: u16, args: &[&dyn Arg]) -> Ov {
    let fail = plan::get(id) & FAIL != 0;
    let v = hv(id, args);
    if fail {
        None
    } else {
        Some(v)
    }
}
impl Stamp for Ov {
    fn stamp(self) -> Self {
        self.map(|v| v.push(STAMP))
    }
}

/// Block-capture marker: `{ cap(ID); probe }`. With HOLD it lingers so that anything running
/// concurrently (which a correct expansion does not have) becomes visible.
pub fn cap(id: u16) {
    let f = plan::get(id);
    log(K::Cap, id, &[]);
    if f & HOLD != 0 {
        std::thread::sleep(std::time::Duration::from_millis(3));
        log(K::Cap, id, &[1]);
    }
    if f & PANIC != 0 {
        panic!("injected panic at capture {}", id);
    }
}
/// Snapshot of a `let` name, taken inside a capture block.
pub fn snap(id: u16, r: &Rv) {
    log(K::Snap, id, &enc_rv(r));
}
/// The same observation through a mutable borrow: only compiles if the name was bound with `let mut`.
pub fn snapm(id: u16, r: &mut Rv) {
    log(K::Snap, id, &enc_rv(r));
}
pub fn snapmo(id: u16, o: &mut Ov) {
    log(K::Snap, id, &enc_ov(o));
}

/// Anything that can be handed to a handler.
pub trait Arg {
    fn enc(&self) -> Vec<u16>;
}
impl Arg for Val {
    fn enc(&self) -> Vec<u16> {
        self.h.clone()
    }
}
impl Arg for Rv {
    fn enc(&self) -> Vec<u16> {
        enc_rv(self)
    }
}
pub fn enc_args(args: &[&dyn Arg]) -> Vec<u16> {
    let mut h = Vec::new();
    for a in args {
        h.push(SEP);
        h.extend(a.enc());
    }
    h
}
/// Handler-expression evaluation marker: `{ hev(ID); |a, b| hv(ID, &[&a, &b]) }` is too noisy for
/// closures, so handlers are written as `hmk(ID, |a, b| hv(ID, &[&a, &b]))`.
pub fn hmk<F>(id: u16, f: F) -> F {
    log(K::HndEval, id, &[]);
    if plan::get(id) & PANIC_EVAL != 0 {
        panic!("injected panic (eval) at handler {}", id);
    }
    f
}
/// Body of a sync handler returning a value (map / then).
pub fn hv(id: u16, args: &[&dyn Arg]) -> Val {
    let enc = enc_args(args);
    let f = plan::get(id);
    log(K::Hnd, id, &enc);
    if f & PANIC != 0 {
        panic!("injected panic at handler {}", id);
    }
    let mut h = vec![id];
    h.extend(enc);
    Val::from_hist(h)
}
/// Body of a sync `and_then` handler.
pub fn hr(id: u16, args: &[&dyn Arg]) -> Rv {
    let fail = plan::get(id) & FAIL != 0;
    let v = hv(id, args);
    if fail {
        Err(Fail { h: v.h.clone(), t: Tok::new() })
    } else {
        Ok(v)
    }
}

/// Stamp applied by harness joiners to every value passing through them.
pub trait Stamp {
    fn stamp(self) -> Self;
}
impl Stamp for Rv {
    fn stamp(self) -> Self {
        match self {
            Ok(v) => Ok(v.push(STAMP)),
            Err(e) => Err(e.push(STAMP)),
        }
    }
}
impl Stamp for Val {
    fn stamp(self) -> Self {
        self.push(STAMP)
    }
}
impl<T> Stamp for std::thread::JoinHandle<T> {
    fn stamp(self) -> Self {
        self
    }
}
pub fn joiner_enter(arity: usize) {
    log(K::Join, arity as u16, &[]);
}
pub fn call_lazy<T, F: FnOnce() -> T>(f: F) -> T {
    f()
}
/// Fixed-arity joiners that are not macros: a function (also reached through a generic path, a parenthesized closure, a
/// call expression returning it) and a method (`receiver.method` spelling, as in `pool.join`).
pub fn jf2<A: Stamp, B: Stamp>(a: A, b: B) -> (A, B) {
    joiner_enter(2);
    (a.stamp(), b.stamp())
}
/// Fixed-arity function joiner for `lazy_branches(true)`: its arguments are the branch closures (a new closure type in
/// every step, so the joiner has to stay generic from step to step).
pub fn jfl2<A: Stamp, B: Stamp, FA: FnOnce() -> A, FB: FnOnce() -> B>(a: FA, b: FB) -> (A, B) {
    joiner_enter(2);
    (a().stamp(), b().stamp())
}
pub struct JP;
pub static JPS: JP = JP;
impl JP {
    pub fn j2<A: Stamp, B: Stamp>(&self, a: A, b: B) -> (A, B) {
        jf2(a, b)
    }
}
pub fn jp() -> JP {
    JP
}
pub fn mkj<A: Stamp, B: Stamp>() -> fn(A, B) -> (A, B) {
    jf2::<A, B>
}

/// Custom joiner (eager branches): logs its arity, evaluates branches in order, stamps values.
/// An operand spelled as a macro call (`idm!(p(3))`): expands to its argument.
#[macro_export]
macro_rules! idm {
    ($e:expr) => {
        $e
    };
}

/// An operand's jump into the caller's loop, taken exactly once per run (see gen/probe.py, loop_mode).
pub fn jump_once() -> bool {
    if crate::log::once_per_run() {
        // whatever the abandoned iteration evaluated before the jump (hoisted captures, earlier branches) is evaluated
        // again by the iteration that completes: the run that is judged starts here
        crate::log::clear();
        true
    } else {
        false
    }
}
/// The macro evaluation completed in iteration `lp` of the caller's loop: after one taken `continue` that must be 1 (0 if
/// the program has no operand that jumps).
pub fn loop_iteration(lp: u8, expected: u8) {
    if lp != expected {
        panic!("an operand's `continue` did not reach the caller's loop: the macro completed in iteration {} instead of {}", lp, expected);
    }
}
/// Always true; keeps `if yes() { .. } else { .. }` operands from being folded away syntactically.
pub fn yes() -> bool {
    true
}

#[macro_export]
macro_rules! jn {
    ($($b:expr),* $(,)?) => {{
        $crate::probes::joiner_enter(0usize $(+ { let _ = stringify!($b); 1usize })*);
        ( $( $crate::probes::Stamp::stamp($b) ),* )
    }};
}
/// Custom joiner for `lazy_branches(true)`: every argument must be a zero-argument closure.
#[macro_export]
macro_rules! jnl {
    ($($b:expr),* $(,)?) => {{
        $crate::probes::joiner_enter(0usize $(+ { let _ = stringify!($b); 1usize })*);
        ( $( $crate::probes::Stamp::stamp($crate::probes::call_lazy($b)) ),* )
    }};
}
/// Custom joiner for `transpose_results(false)`: returns the already transposed Result.
#[macro_export]
macro_rules! jnt {
    ($($b:expr),* $(,)?) => {{
        $crate::probes::joiner_enter(0usize $(+ { let _ = stringify!($b); 1usize })*);
        $crate::probes::transpose_tuple(( $( $b ),* ,))
    }};
}
/// Async custom joiner (awaits the branches concurrently, stamps results).
#[macro_export]
macro_rules! jna {
    ($($b:expr),* $(,)?) => {{
        $crate::probes::joiner_enter(0usize $(+ { let _ = stringify!($b); 1usize })*);
        let __t = $crate::futures_reexport::join!($($b),*);
        $crate::probes::stamp_tuple(__t)
    }};
}
/// Async lazy joiners (`lazy_branches(true)`): every argument is a zero-argument closure returning the branch future.
#[macro_export]
macro_rules! jnla {
    ($($b:expr),* $(,)?) => {{
        $crate::probes::joiner_enter(0usize $(+ { let _ = stringify!($b); 1usize })*);
        let __t = $crate::futures_reexport::join!($( $crate::probes::call_lazy($b) ),*);
        $crate::probes::stamp_tuple(__t)
    }};
}
#[macro_export]
macro_rules! jntla {
    ($($b:expr),* $(,)?) => {{
        $crate::probes::joiner_enter(0usize $(+ { let _ = stringify!($b); 1usize })*);
        $crate::futures_reexport::try_join!($( $crate::probes::stamp_ok($crate::probes::call_lazy($b)) ),*)
    }};
}
/// Async try joiner: like `try_join!`, output is `Result<tuple, Fail>`.
#[macro_export]
macro_rules! jnta {
    ($($b:expr),* $(,)?) => {{
        $crate::probes::joiner_enter(0usize $(+ { let _ = stringify!($b); 1usize })*);
        $crate::futures_reexport::try_join!($( $crate::probes::stamp_ok($b) ),*)
    }};
}

pub async fn stamp_ok<F: std::future::Future<Output = Rv>>(f: F) -> Rv {
    f.await.map(|v| v.stamp())
}

/// Tuple helpers used by the joiner macros.
pub trait TransposeTuple {
    type Out;
    fn transpose(self) -> Result<Self::Out, Fail>;
}
pub fn transpose_tuple<T: TransposeTuple>(t: T) -> Result<T::Out, Fail> {
    t.transpose()
}
pub trait StampTuple {
    fn stamp_all(self) -> Self;
}
pub fn stamp_tuple<T: StampTuple>(t: T) -> T {
    t.stamp_all()
}
macro_rules! tuple_impls {
    ($( ($($n:ident $i:tt),+) ),+) => {$(
        impl<$($n: Stamp),+> TransposeTuple for ($( Result<$n, Fail>, )+) {
            type Out = ($($n),+);
            #[allow(non_snake_case)]
            fn transpose(self) -> Result<Self::Out, Fail> {
                $( let $n = self.$i; )+
                // first failing branch wins, the others are dropped
                $( let $n = match $n { Ok(v) => Some(v), Err(e) => return Err(e) }; )+
                Ok(($( $n.unwrap().stamp() ),+))
            }
        }
    )+};
}
tuple_impls!((A 0, B 1), (A 0, B 1, C 2), (A 0, B 1, C 2, D 3), (A 0, B 1, C 2, D 3, E 4));
macro_rules! stamp_impls {
    ($( ($($n:ident $i:tt),+) ),+) => {$(
        impl<$($n: Stamp),+> StampTuple for ($($n,)+) {
            fn stamp_all(self) -> Self { ($( self.$i.stamp(), )+) }
        }
    )+};
}
stamp_impls!((A 0, B 1), (A 0, B 1, C 2), (A 0, B 1, C 2, D 3), (A 0, B 1, C 2, D 3, E 4));
