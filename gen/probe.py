#!/usr/bin/env python3
"""Generator of the probe corpus: multi-branch, multi-step programs over Result<Val,Fail>
whose operands are all plan-driven probes. Emits, per program, the macro invocations under
every applicable macro name plus a static description for the reference model."""
import itertools
import random

SYNC_KINDS = ["join", "try_join", "join_spawn", "try_join_spawn", "spawn", "try_spawn"]
ASYNC_KINDS = ["join_async", "try_join_async", "join_async_spawn", "try_join_async_spawn", "async_spawn", "try_async_spawn"]
KIND_ENUM = {
    "join": "Join", "try_join": "TryJoin", "join_spawn": "JoinSpawn", "try_join_spawn": "TryJoinSpawn",
    "spawn": "Spawn", "try_spawn": "TrySpawn", "join_async": "JoinAsync", "try_join_async": "TryJoinAsync",
    "join_async_spawn": "JoinAsyncSpawn", "try_join_async_spawn": "TryJoinAsyncSpawn",
    "async_spawn": "AsyncSpawn", "try_async_spawn": "TryAsyncSpawn",
}

# op -> (operator, sync probe, async probe or None if sync-only, Op enum name)
OPS = {
    "Src": ("", "src", "srca"),
    "SrcAwait": ("", "src", "srca"),
    "ThenW": ("->", "t", "tw"),
    "Map": ("|>", "p", "pa"),
    "AndThen": ("=>", "q", "qa"),
    "OrElse": ("<=", "r", "ra"),
    "MapErr": ("!>", "e", "ea"),
    "Inspect": ("??", "i", "ia"),
    "Then": ("->", "t", "ta"),
    "Or": ("<|", "alt", None),
    "ThenV": ("->", "tv", "tva"),
    "ThenVV": ("->", "tvv", None),
    "ThenF": ("->", "tf", "tfa"),
    "ThenFF": ("->", "tff", "tff"),
    "ThenR": ("->", "tr", "tr"),
}
# Option flavour: probe names per op (sync only)
OPT_PROBE = {"Src": "srco", "Map": "p", "AndThen": "qo", "OrElse": "ro", "Inspect": "io", "Then": "to", "Or": "alto", "Filter": "fo",
             "ThenV": "tvo", "ThenVV": "tvv", "ThenR": "tro", "ThenB": "tbo"}
OPS_EXTRA = {"Filter": ("?>", "fo", None), "ThenB": ("->", "tbo", None)}
WRAP = {
    "WAndThen": ("=>", "ThenV"),
    "WMap": ("|>", "ThenVV"),
    "WOrElse": ("<=", "ThenF"),
    "WMapErr": ("!>", "ThenFF"),
    "WInspect": ("??", "ThenR"),
    "WFilter": ("?>", "ThenB"),
}
SYNC_ONLY_OPS = {"Or", "WMap", "ThenVV"}


class Act:
    def __init__(self, op, id=0, cap=0, snaps=None, inner=None, explicit_close=True):
        self.op = op
        self.id = id
        self.cap = cap
        self.snaps = snaps or []  # list of (snap id, branch index)
        self.inner = inner or []
        self.explicit_close = explicit_close

    def walk(self):
        yield self
        for a in self.inner:
            yield from a.walk()


class Prog:
    def __init__(self, pid):
        self.id = pid
        self.branches = []  # list of dict(named=bool, mut=bool, steps=[[Act]])
        self.handler = None  # (id, pos)
        self.joiner = "None"
        self.handler_block = False
        self.opt = False
        self.tags = []
        self.next_id = 1

    def nid(self):
        i = self.next_id
        self.next_id += 1
        return i

    def all_acts(self):
        for b in self.branches:
            for s in b["steps"]:
                for a in s:
                    yield from a.walk()

    def sync_only(self):
        # A hoisted capture used inside a wrapper closure is captured by reference (the probes are
        # Copy), which 'static futures cannot hold; the plain nested-closure rendering has the same
        # limitation, so such programs are only instantiated under the sync macros.
        def cap_in_wrap(acts, inside):
            return any((inside and a.cap) or cap_in_wrap(a.inner, True) for a in acts)
        return any(a.op in SYNC_ONLY_OPS for a in self.all_acts()) or any(
            cap_in_wrap(st, False) for b in self.branches for st in b["steps"])


def op_spelling(op):
    return (OPS.get(op) or OPS_EXTRA[op])[0]


def render_operand(p, a, asy, names):
    if p.opt:
        probe = OPT_PROBE[a.op]
    else:
        probe = OPS[a.op][2 if asy else 1]
    call = "%s(%d)" % (probe, a.id)
    if a.op == "SrcAwait" and asy:
        # the head is awaited in the caller's block while the step-0 arguments are being built
        call += ".await"
    if a.op == "Src" and a.id % 4 == 1 and not a.cap:
        # an initial value that binds weaker than a method call (a cast to its own type): still part of its branch
        call += " as %s" % ("Ov" if p.opt else ("BF" if asy else "Rv"))
    if not a.cap and a.op != "SrcAwait":
        # operands that end in braces without being block expressions (`unsafe { .. }`, `match .. { .. }`): they are
        # ordinary operands — evaluated where a plain call would be, never hoisted in front of the step
        if a.id % 8 == 3:
            call = "unsafe { %s }" % call
        elif a.id % 16 == 13:
            call = "match 0u8 { _ => %s }" % call
        elif a.id % 16 == 6:
            call = "idm!(%s)" % call          # a macro call
        elif a.id % 16 == 10:
            call = "(%s)" % call              # parenthesized
        elif a.id % 16 == 14:
            call = "if yes() { %s } else { unreachable!() }" % call
        elif asy and a.op == "Src" and a.id % 8 == 7:
            call = "async move { %s.await }" % call   # an async block as the branch's first future
    if a.op == "Src" and not a.cap and getattr(p, "_loopjump", False):
        # operands of the sequential macros are part of the caller's function body: they may jump to a loop of the caller
        # (never taken here; it has to compile, also when the invocation has several steps)
        # the first of them takes its `continue` once (the caller's loop then goes on with its next iteration)
        p._nloop = getattr(p, "_nloop", 0) + 1
        if p._nloop == 1:
            return "(if jump_once() { continue } else { %s })" % call
        return "(if __lp > 5 { %s } else { %s })" % ("continue" if a.id % 2 else "break", call)
    if not a.cap and a.op != "SrcAwait" and getattr(p, "_frag", None) is not None and a.id % 2 == 0:
        # forwarded as a `$e:expr` fragment of a user macro_rules (reaches the proc macro as a None-delimited group)
        p._frag.append(call)
        return "$e%d" % (len(p._frag) - 1)
    if a.cap:
        # a `let mut` name is observed through `&mut` (every other snapshot of it): the binding really is mutable, also
        # for branches that have already finished
        def snap_call(sid, b):
            if p.branches[b].get("mut") and sid % 2 == 0:
                return " %s(%d, &mut %s);" % ("snapmo" if p.opt else "snapm", sid, names[b])
            return " %s(%d, &%s);" % ("snapo" if p.opt else "snap", sid, names[b])
        snaps = "".join(snap_call(sid, b) for sid, b in a.snaps)
        # every third capture is spelled as a labelled block (still a block expression)
        label = "'blk%d: " % a.cap if a.cap % 3 == 0 else ""
        blk = "%s{ cap(%d);%s %s }" % (label, a.cap, snaps, call)
        if getattr(p, "_frag", None) is not None and a.cap % 2 == 0 and not label:
            # a block capture forwarded as a `$e:expr` fragment is still "written as a block": evaluated once, in front of its
            # step ("\0" = never as a parenthesized `$e:tt`, which would make it an ordinary parenthesized operand)
            p._frag.append("\0" + blk)
            return "$e%d" % (len(p._frag) - 1)
        return blk
    return call


def render_acts(p, acts, asy, names, first_tilde, last_in_step=True):
    out = []
    for idx, a in enumerate(acts):
        tilde = "~" if (first_tilde and idx == 0) else ""
        is_last = last_in_step and idx == len(acts) - 1
        if a.op in ("Src", "SrcAwait"):
            out.append(render_operand(p, a, asy, names))
        elif a.op in WRAP:
            opr, _ = WRAP[a.op]
            inner = render_acts(p, a.inner, asy, names, False, last_in_step=False)
            close = "" if (is_last and not a.explicit_close) else " <<<"
            out.append("%s%s >>> %s%s" % (tilde, opr, inner, close))
        else:
            out.append("%s%s %s" % (tilde, op_spelling(a.op), render_operand(p, a, asy, names)))
    return " ".join(out)


def branch_names(p):
    """Name tokens per named branch. Four spellings: plain identifiers, raw identifiers (`r#n3`), identifiers that reach
    the macro through a `macro_rules!` parameter (other hygiene context), and plain identifiers in an invocation that is
    forwarded as a whole through a `macro_rules!` wrapper (the macro's call site is then inside that wrapper's expansion,
    while every user token keeps the caller's hygiene context)."""
    mode = p.id % 4 if any(b["named"] for b in p.branches) else 0
    if mode == 1:
        return {i: "r#n%d" % i for i, b in enumerate(p.branches) if b["named"]}
    if mode == 2:
        return {i: "$a%d" % i for i, b in enumerate(p.branches) if b["named"]}
    return {i: "n%d" % i for i, b in enumerate(p.branches) if b["named"]}


def frag_mode(p):
    """Every fifth unnamed program passes half of its operands (block captures among them) and its handler to the macro as `$e:expr`
    fragments of a local macro_rules (a frequent way of wrapping join! in user code): the proc macro then sees
    None-delimited groups where it otherwise sees the expression's own tokens."""
    return p.id % 5 == 2 and not any(b["named"] for b in p.branches)


def loop_mode(p, kind):
    """Every fifth program: under `join!` / `try_join!` the invocation stands in a `for` loop of the caller and its first values
    contain a `continue` / `break` aimed at that loop."""
    # (not with lazy branches: there the branch is a closure handed to the joiner, and a closure cannot jump out)
    return kind in ("join", "try_join") and p.id % 5 == 4 and p.joiner == "None" and not frag_mode(p) and not any(b["named"] for b in p.branches)


def wrap_hygiene(p, kind, body):
    """For hygiene mode: the invocation text uses `$aK` metavariables; wrap it into a local macro_rules.
    For forwarding mode: the whole token list is passed through `__fwd!`."""
    invocation = "%s! { %s }" % (kind, body)
    if getattr(p, "_frag", None):
        # alternately as `$e:expr` (a None-delimited group for the proc macro) and as `$e:tt` (a parenthesized group whose
        # tokens keep the caller's hygiene context while the invocation itself is written inside the macro_rules body)
        as_tt = [i % 2 == 1 and not f.startswith("\0") for i, f in enumerate(p._frag)]
        params = ", ".join("$e%d:%s" % (i, "tt" if as_tt[i] else "expr") for i in range(len(p._frag)))
        args = ", ".join(("(%s)" % f) if as_tt[i] else f.lstrip("\0") for i, f in enumerate(p._frag))
        return "{ macro_rules! __fe { (%s) => { %s } } __fe!(%s) }" % (params, invocation, args)
    named = [i for i, b in enumerate(p.branches) if b["named"]]
    if not named or p.id % 4 in (0, 1):
        return invocation
    if p.id % 4 == 3:
        return "{ macro_rules! __fwd { ($($t:tt)*) => { %s! { $($t)* } } } __fwd!(%s) }" % (kind, body)
    params = ", ".join("$a%d:ident" % i for i in named)
    args = ", ".join("n%d" % i for i in named)
    return "{ macro_rules! __t { (%s) => { %s } } __t!(%s) }" % (params, invocation, args)


def render_body(p, kind, hk):
    asy = kind in ASYNC_KINDS
    names = branch_names(p)
    p._frag = [] if frag_mode(p) else None
    p._loopjump = loop_mode(p, kind)
    p._nloop = 0
    parts = []
    for bi, b in enumerate(p.branches):
        s = ""
        if b["named"]:
            s += "let %s%s = " % ("mut " if b.get("mut") else "", names[bi])
        steps = []
        for k, st in enumerate(b["steps"]):
            steps.append(render_acts(p, st, asy, names, k > 0))
        s += " ".join(steps)
        parts.append(s)
    if p.handler and hk:
        hid, pos = p.handler[0], p.handler[1]
        n = len(p.branches)
        ty = ("Ov" if p.opt else "Rv") if hk == "then" else "Val"
        params = ", ".join("a%d: %s" % (i, ty) for i in range(n))
        args = ", ".join("&a%d" % i for i in range(n))
        if asy:
            body = {"map": "hv", "and_then": "hra", "then": "hva"}[hk]
        else:
            body = {"map": "hv", "and_then": "hro" if p.opt else "hr", "then": "hv"}[hk]
        h = "hmk(%d, |%s| %s(%d, &[%s]))" % (hid, params, body, hid, args)
        if p.handler_block:
            # a handler may be any expression, also one spelled as a block
            h = "{ %s }" % h
        if p._frag is not None:
            p._frag.append(h)
            h = "$e%d" % (len(p._frag) - 1)
        h = "%s => %s" % (hk, h)
        parts.insert(pos, h)
    opts = ""
    if p.joiner == "Stamp" and getattr(p, "joiner_spelling", None) and not asy:
        opts = "custom_joiner(%s) " % p.joiner_spelling
    elif p.joiner == "Lazy" and getattr(p, "joiner_spelling", None) and not asy:
        opts = "custom_joiner(%s) lazy_branches(true) " % p.joiner_spelling
    elif p.joiner == "Stamp":
        opts = "custom_joiner(%s) " % (("jnta!" if kind.startswith("try_") else "jna!") if asy else "jn!")
    elif p.joiner == "Lazy":
        opts = "custom_joiner(%s) lazy_branches(true) " % (("jntla!" if kind.startswith("try_") else "jnla!") if asy else "jnl!")
    elif p.joiner == "Transposed":
        opts = "custom_joiner(%s) transpose_results(false) " % ("jnta!" if asy else "jnt!")
    # a handler in the middle is followed by a branch: handlers consume an optional comma themselves
    return opts + ", ".join(parts)


def hk_for(p, kind):
    if not p.handler:
        return None
    if kind.startswith("try_"):
        return "map" if p.id % 2 == 0 else "and_then"
    return "then"


def kinds_for(p, want_async=True):
    ks = list(SYNC_KINDS)
    if want_async and not p.sync_only() and not p.opt:
        ks += ASYNC_KINDS
    if p.joiner == "Lazy":
        ks = [k for k in ks if k in ("join", "try_join", "join_async", "try_join_async")]
    if p.joiner == "Transposed":
        ks = [k for k in ks if k == "try_join" or (k.startswith("try_") and k in ASYNC_KINDS)]
        if getattr(p, "sync_transposed", False):
            ks = ["try_join"]
    return ks


def desc_acts(acts):
    items = []
    for a in acts:
        snaps = ", ".join("Snap { id: %d, branch: %d }" % s for s in a.snaps)
        items.append("Act { op: Op::%s, id: %d, cap: %d, snaps: &[%s], inner: %s }" % (a.op, a.id, a.cap, snaps, desc_acts(a.inner)))
    return "&[%s]" % ", ".join(items)


def rust_str(s):
    return '"' + s.replace("\\", "\\\\").replace('"', '\\"') + '"'


def render_prog(p, want_async=True, skip=()):
    """Returns (module source, list of case expressions)."""
    lines = ["pub mod p%d {" % p.id, "    #![allow(unused_mut, unused_variables, clippy::all)]", "    use super::*;"]
    brs = []
    for b in p.branches:
        steps = ", ".join(desc_acts(st) for st in b["steps"])
        brs.append("Branch { named: %s, steps: &[%s] }" % ("true" if b["named"] else "false", steps))
    hnd = "None" if not p.handler else "Some(Hnd { id: %d, pos: %d })" % p.handler
    text = render_body(p, "join", hk_for(p, "join"))
    for i in reversed(range(len(p._frag or []))):
        text = text.replace("$e%d" % i, "$e%d:expr=(%s)" % (i, p._frag[i].lstrip("\0")))
    lines.append("    pub static PROG: Prog = Prog { id: %d, branches: &[%s], handler: %s, joiner: Joiner::%s, opt: %s, max_id: %d, tags: %s, text: %s };" % (
        p.id, ", ".join(brs), hnd, p.joiner, "true" if p.opt else "false", p.next_id, rust_str(",".join(p.tags)), rust_str(text)))
    cases = []
    for kind in kinds_for(p, want_async):
        if (p.id, kind) in skip:
            continue
        hk = hk_for(p, kind)
        body = render_body(p, kind, hk)
        if kind in ASYNC_KINDS:
            lines.append("    pub fn k_%s() -> LocalFut { let f = %s; Box::pin(async move { norm(f.await) }) }" % (kind, wrap_hygiene(p, kind, body)))
            run = "Run::Async(p%d::k_%s)" % (p.id, kind)
        else:
            if loop_mode(p, kind):
                lines.append("    pub fn k_%s() -> Out { for __lp in 0..3u8 { let __o = norm(%s); loop_iteration(__lp, %d); return __o; } unreachable!() }" % (kind, wrap_hygiene(p, kind, body), 1 if p._nloop >= 1 else 0))
            else:
                lines.append("    pub fn k_%s() -> Out { norm(%s) }" % (kind, wrap_hygiene(p, kind, body)))
            run = "Run::Sync(p%d::k_%s)" % (p.id, kind)
        hke = "None" if not hk else "Some(HK::%s)" % {"map": "Map", "and_then": "AndThen", "then": "Then"}[hk]
        cases.append("Case { prog: &p%d::PROG, kind: Kind::%s, hk: %s, run: %s }" % (p.id, KIND_ENUM[kind], hke, run))
    lines.append("}")
    return "\n".join(lines), cases


# ------------------------------------------------------------------------------------------
# program generators


def gen_simple_ops(p, rng, n, allow_or=True, allow_wrap=False, depth=0, caps=0.0, names_avail=None, step=0):
    """n outer-level actions over an Rv."""
    acts = []
    for _ in range(n):
        choices = ["Map", "AndThen", "OrElse", "MapErr", "Inspect", "Then"]
        if allow_or:
            choices.append("Or")
        if allow_wrap and depth < 3:
            choices += ["WAndThen", "WAndThen", "WOrElse", "WMapErr", "WInspect"]
            if allow_or:
                choices.append("WMap")
        op = rng.choice(choices)
        if op in WRAP:
            first = WRAP[op][1]
            # captures inside wrappers make a program sync-only (see Prog.sync_only); keep them to a minority
            inner_caps = caps if getattr(p, "caps_in_wrap", False) else 0.0
            inner = [mk_act(p, rng, first, inner_caps, names_avail, step)]
            if op in ("WAndThen", "WOrElse"):
                inner += gen_simple_ops(p, rng, rng.randint(0, 2), allow_or, allow_wrap, depth + 1, inner_caps, names_avail, step)
            elif op in ("WMap", "WMapErr") and rng.random() < 0.4:
                inner.append(mk_act(p, rng, first, inner_caps, names_avail, step))
            acts.append(Act(op, 0, inner=inner, explicit_close=rng.random() < 0.6))
        else:
            acts.append(mk_act(p, rng, op, caps, names_avail, step))
    return acts


def mk_act(p, rng, op, caps=0.0, names_avail=None, step=0):
    a = Act(op, p.nid())
    if caps and rng.random() < caps:
        a.cap = p.nid()
        if names_avail and step >= 1:
            for b in names_avail:
                if rng.random() < 0.6:
                    a.snaps.append((p.nid(), b))
    return a


def gen_profile_prog(pid, profile, rng):
    """One program for an exact depth profile; simple operators only."""
    p = Prog(pid)
    p.tags = ["profile"]
    named = [rng.random() < 0.3 for _ in profile]
    names_avail = [i for i, x in enumerate(named) if x]
    for bi, d in enumerate(profile):
        steps = []
        for k in range(d):
            acts = []
            if k == 0:
                acts.append(Act("Src", p.nid()))
                acts += gen_simple_ops(p, rng, rng.randint(0, 1), allow_or=False)
            else:
                acts += gen_simple_ops(p, rng, rng.randint(1, 2), allow_or=False, caps=0.25 if names_avail else 0.1, names_avail=names_avail, step=k)
            steps.append(acts)
        p.branches.append({"named": named[bi], "mut": rng.random() < 0.3, "steps": steps})
    if any(a.cap for a in p.all_acts()):
        p.tags.append("cap")
    if any(a.snaps for a in p.all_acts()):
        p.tags.append("names")
    if rng.random() < 0.4:
        p.handler = (p.nid(), rng.randint(0, len(profile)))
        p.handler_block = rng.random() < 0.5
        p.tags.append("handler")
    return p


def gen_rand_prog(pid, rng, max_branches=5, max_steps=4, async_ok=False):
    p = Prog(pid)
    p.tags = ["rand"]
    n = rng.choice([1, 2, 2, 3, 3, 4, 5][: max_branches + 2])
    n = min(n, max_branches)
    sync_only = rng.random() < 0.25 and not async_ok
    named = [rng.random() < 0.45 for _ in range(n)]
    names_avail = [i for i, x in enumerate(named) if x]
    caps = rng.choice([0.0, 0.3, 0.6])
    wrap = rng.random() < 0.6
    p.caps_in_wrap = rng.random() < 0.3 and not async_ok
    for bi in range(n):
        d = rng.randint(1, max_steps)
        steps = []
        for k in range(d):
            acts = []
            if k == 0:
                if async_ok and bi >= 1 and rng.random() < 0.3:
                    acts.append(Act("SrcAwait", p.nid()))
                    acts.append(Act("ThenW", p.nid()))
                    if "headawait" not in p.tags:
                        p.tags.append("headawait")
                else:
                    src = Act("Src", p.nid())
                    if caps and rng.random() < caps * 0.5:
                        src.cap = p.nid()
                    acts.append(src)
                acts += gen_simple_ops(p, rng, rng.randint(0, 3), sync_only, wrap, 0, caps, names_avail, k)
            else:
                acts += gen_simple_ops(p, rng, rng.randint(1, 3), sync_only, wrap, 0, caps, names_avail, k)
            steps.append(acts)
        p.branches.append({"named": named[bi], "mut": rng.random() < 0.3, "steps": steps})
    if any(a.cap for a in p.all_acts()):
        p.tags.append("cap")
    if any(a.snaps for a in p.all_acts()):
        p.tags.append("names")
    if any(a.op in WRAP for a in p.all_acts()):
        p.tags.append("wrap")
    if rng.random() < 0.5:
        p.handler = (p.nid(), rng.randint(0, n))
        p.handler_block = rng.random() < 0.5
        p.tags.append("handler")
    return p


def gen_opt_ops(p, rng, n, depth=0, caps=0.0, names_avail=None, step=0):
    acts = []
    for _ in range(n):
        choices = ["Map", "AndThen", "OrElse", "Inspect", "Then", "Or", "Filter", "Filter"]
        if depth < 2:
            choices += ["WAndThen", "WMap", "WInspect", "WFilter"]
        op = rng.choice(choices)
        if op in WRAP:
            first = WRAP[op][1]
            inner = [mk_act(p, rng, first, caps, names_avail, step)]
            if op == "WAndThen":
                inner += gen_opt_ops(p, rng, rng.randint(0, 2), depth + 1, caps, names_avail, step)
            elif op == "WMap" and rng.random() < 0.4:
                inner.append(mk_act(p, rng, first, caps, names_avail, step))
            acts.append(Act(op, 0, inner=inner, explicit_close=rng.random() < 0.6))
        else:
            acts.append(mk_act(p, rng, op, caps, names_avail, step))
    return acts


def gen_opt_prog(pid, rng, max_branches=4, max_steps=4):
    """Option flavour: `Option<Val>` values (a failure has no payload), sync and thread kinds."""
    p = Prog(pid)
    p.opt = True
    p.tags = ["rand", "opt"]
    n = rng.randint(1, max_branches)
    named = [rng.random() < 0.35 for _ in range(n)]
    names_avail = [i for i, x in enumerate(named) if x]
    caps = rng.choice([0.0, 0.3])
    for bi in range(n):
        d = rng.randint(1, max_steps)
        steps = []
        for k in range(d):
            acts = []
            if k == 0:
                acts.append(Act("Src", p.nid()))
                acts += gen_opt_ops(p, rng, rng.randint(0, 3), 0, caps, names_avail, k)
            else:
                acts += gen_opt_ops(p, rng, rng.randint(1, 3), 0, caps, names_avail, k)
            steps.append(acts)
        p.branches.append({"named": named[bi], "mut": rng.random() < 0.3, "steps": steps})
    if any(a.cap for a in p.all_acts()):
        p.tags.append("cap")
    if any(a.snaps for a in p.all_acts()):
        p.tags.append("names")
    if any(a.op in WRAP for a in p.all_acts()):
        p.tags.append("wrap")
    if rng.random() < 0.5:
        p.handler = (p.nid(), rng.randint(0, n))
        p.handler_block = rng.random() < 0.5
        p.tags.append("handler")
    return p


def gen_joiner_prog(pid, rng):
    """Programs exercising custom_joiner / lazy_branches / transpose_results(false)."""
    p = Prog(pid)
    p.joiner = rng.choice(["Stamp", "Stamp", "Lazy", "Transposed"])
    p.tags = ["joiner", "rand"]
    n = rng.randint(1, 4)
    single_step = p.joiner == "Transposed"
    # `transpose_results(false)` in every step of the sequential try macro: the joiner's output is the already transposed
    # Result in every step, and the next step of a branch continues from its own (re-wrapped) Result, exactly as in the async
    # try macros. (Until fix of /repo "wrap the values of a step again" the sync path handed bare values to the next step;
    # these programs had been adapted to that — steps continued through a `->` taking a Val, equal depths only — which was
    # too lenient.)
    p.sync_transposed = single_step and pid % 2 == 1
    if p.sync_transposed:
        n = rng.randint(2, 4)
        single_step = False
    for bi in range(n):
        d = 1 if single_step else rng.randint(1, 3)
        steps = []
        for k in range(d):
            acts = []
            if k == 0:
                acts.append(Act("Src", p.nid()))
                acts += gen_simple_ops(p, rng, rng.randint(0, 2), allow_or=False)
            else:
                acts += gen_simple_ops(p, rng, rng.randint(1, 2), allow_or=False, caps=0.2)
            steps.append(acts)
        p.branches.append({"named": False, "mut": False, "steps": steps})
    if any(a.cap for a in p.all_acts()):
        p.tags.append("cap")
    if rng.random() < 0.3 and p.joiner != "Transposed":
        p.handler = (p.nid(), rng.randint(0, n))
        p.tags.append("handler")
    return p


def gen_capture_matrix(pid0):
    """Systematic capture placements: every operator x {top level, inside `=> >>>`} x {step 0, step 1}, in the second
    branch of a two-branch program whose first branch has ordinary probes and a capture of its own."""
    progs = []
    pid = pid0
    for opt in (False, True):
        ops = ["Map", "AndThen", "OrElse", "Inspect", "Then", "Or"] + (["Filter"] if opt else ["MapErr"])
        for op in ops:
            for inside in (False, True):
                for step in (0, 1):
                    p = Prog(pid)
                    p.opt = opt
                    p.tags = ["rand", "cap", "capmatrix"] + (["opt"] if opt else [])
                    # branch 0: plain probes + one capture
                    b0 = [[Act("Src", p.nid()), Act("Map", p.nid()), Act("Inspect", p.nid(), cap=p.nid())]]
                    if step == 1:
                        b0.append([Act("Map", p.nid()), Act("Then", p.nid(), cap=p.nid())])
                    tgt = Act(op, p.nid())
                    tgt.cap = p.nid()
                    if inside:
                        first = Act("ThenV", p.nid())
                        first.cap = p.nid()
                        holder = Act("WAndThen", 0, inner=[first, tgt], explicit_close=(pid % 2 == 0))
                        acts = [holder, Act("Map", p.nid())]
                    else:
                        acts = [Act("Map", p.nid()), tgt, Act("Map", p.nid(), cap=p.nid())]
                    b1 = [[Act("Src", p.nid(), cap=(p.nid() if pid % 3 == 0 else 0))]]
                    if step == 0:
                        b1[0] += acts
                    else:
                        b1[0].append(Act("Map", p.nid()))
                        b1.append(acts)
                    p.branches = [{"named": False, "mut": False, "steps": b0}, {"named": False, "mut": False, "steps": b1}]
                    if op == "Or" or inside:
                        pass  # sync-only by the usual rules (Or / capture inside a wrapper)
                    progs.append((p, True))
                    pid += 1
    return progs


def gen_joiner_capture_matrix(pid0):
    """custom_joiner x {eager, lazy branches} x block captures: every branch of every step carries a capture (behind ordinary
    probes of an earlier branch), with and without `let` names that the later captures read. With lazy branches the
    joiner receives closures, but a block operand is still evaluated before the step, not when the joiner calls the branch."""
    progs = []
    pid = pid0
    for joiner in ("Lazy", "Stamp"):
        for n in (2, 3):
            for named in (False, True):
                p = Prog(pid)
                p.joiner = joiner
                p.tags = ["joiner", "rand", "cap", "joincap"] + (["names"] if named else [])
                for bi in range(n):
                    s0 = [Act("Src", p.nid()), Act("Map", p.nid()), Act("Map", p.nid(), cap=p.nid())]
                    a1 = Act("Map", p.nid(), cap=p.nid())
                    a2 = Act("Then", p.nid(), cap=p.nid())
                    if named:
                        a1.snaps = [(p.nid(), b) for b in range(n)]
                        a2.snaps = [(p.nid(), (bi + 1) % n)]
                    steps = [s0, [a1, Act("Map", p.nid()), a2]]
                    if bi == n - 1 and n == 3:
                        steps = steps[:1]        # unequal depths: the last branch ends after step 0
                    p.branches.append({"named": named, "mut": False, "steps": steps})
                progs.append((p, True))
                pid += 1
    return progs


JOINER_SPELLINGS = ["jf2", "vrt::probes::jf2::<_, _>", "JPS.j2", "jp().j2", "(|a, b| jf2(a, b))", "mkj()", "|a, b| jf2(a, b)", "move |a, b| { jf2(a, b) }"]


def gen_joiner_spelling_matrix(pid0):
    """custom_joiner written as something else than a macro: function path, generic path, `receiver.method`, method on a
    call result, parenthesized closure, bare closure (with and without `move`), call expression. Fixed arity 2, so two branches that are active together in
    every joined step; sync kinds only (an async joiner has to await, which only a macro can do at the call site)."""
    progs = []
    pid = pid0
    for sp in JOINER_SPELLINGS:
        for depths in ((1, 1), (2, 2), (2, 1), (3, 3)):
            p = Prog(pid)
            p.joiner = "Stamp"
            p.joiner_spelling = sp
            p.tags = ["joiner", "rand", "joinspell"]
            for d in depths:
                steps = [[Act("Src", p.nid()), Act("Map", p.nid())]]
                for k in range(1, d):
                    steps.append([Act("AndThen", p.nid()), Act("Map", p.nid())])
                p.branches.append({"named": False, "mut": False, "steps": steps})
            p.no_async = True
            progs.append((p, False))
            pid += 1
    # a function joiner with lazy branches: the closures it receives have a new type in every joined step
    for sp in ("jfl2", "vrt::probes::jfl2::<_, _, _, _>", "(|a, b| jfl2(a, b))", "|a, b| jfl2(a, b)"):
        for depths in ((2, 2), (3, 3), (3, 2)):
            p = Prog(pid)
            p.joiner = "Lazy"
            p.joiner_spelling = sp
            p.tags = ["joiner", "rand", "joinspell"]
            for d in depths:
                steps = [[Act("Src", p.nid()), Act("Map", p.nid())]]
                for k in range(1, d):
                    steps.append([Act("AndThen", p.nid()), Act("Map", p.nid())])
                p.branches.append({"named": False, "mut": False, "steps": steps})
            progs.append((p, False))
            pid += 1
    return progs


def gen_bare_programs(pid0):
    """Branches that consist of their initial value only (no combinator at all), alone and next to ordinary branches, with and
    without a handler: the smallest invocations (`join_async! { fut }`) are the ones a special-cased expansion would treat
    differently (evaluated when the macro expression is evaluated instead of at the first poll; seeded change C09-k)."""
    progs = []
    pid = pid0
    for shape in ((0,), (0, 0), (0, 1), (1, 0), (0, 0, 0), (0, 2, 0)):
        for handler in (False, True):
            p = Prog(pid)
            p.tags = ["rand", "bare"]
            for extra in shape:
                steps = [[Act("Src", p.nid())] + [Act("Map", p.nid()) for _ in range(extra)]]
                p.branches.append({"named": False, "mut": False, "steps": steps})
            if handler:
                p.handler = (p.nid(), len(p.branches))
            progs.append((p, True))
            pid += 1
    return progs


def gen_names_matrix(pid0, tier, rng):
    """C12, systematic: for small depth profiles (equal and unequal depths) every assignment of {unnamed, `let`, `let mut`}
    to the branches (not all unnamed); every action of every later step carries a capture that reads every name."""
    out = []
    pid = pid0
    small = [(2,), (2, 2), (1, 2), (2, 1)]
    wide = [(2, 2, 2), (1, 2, 2)] if tier == "quick" else [(2, 2, 2), (1, 2, 2), (3, 3, 3), (3, 1, 2), (2, 2, 2, 2)]
    for prof in small + wide:
        combos = [c for c in itertools.product((0, 1, 2), repeat=len(prof)) if any(c)]
        if prof in wide and tier == "quick":
            rng.shuffle(combos)
            combos = combos[:10]
        elif len(prof) == 4:
            rng.shuffle(combos)
            combos = combos[:24]
        for combo in combos:
            p = Prog(pid)
            p.tags = ["namesmatrix", "names", "cap"]
            names_avail = [i for i, c in enumerate(combo) if c]
            for bi, d in enumerate(prof):
                steps = []
                for k in range(d):
                    acts = []
                    if k == 0:
                        acts.append(Act("Src", p.nid()))
                        acts.append(Act(rng.choice(["Map", "AndThen"]), p.nid()))
                    else:
                        for _ in range(rng.randint(1, 2)):
                            a = Act(rng.choice(["Map", "AndThen", "OrElse", "MapErr", "Inspect", "Then"]), p.nid())
                            a.cap = p.nid()
                            for b in names_avail:
                                a.snaps.append((p.nid(), b))
                            acts.append(a)
                    steps.append(acts)
                p.branches.append({"named": bool(combo[bi]), "mut": combo[bi] == 2, "steps": steps})
            if rng.random() < 0.3:
                p.handler = (p.nid(), rng.randint(0, len(prof)))
                p.handler_block = rng.random() < 0.5
                p.tags.append("handler")
            out.append((p, True))
            pid += 1
    return out


def profiles(max_n, max_d):
    for n in range(1, max_n + 1):
        for prof in itertools.product(range(1, max_d + 1), repeat=n):
            yield prof


def build_corpus(tier, seed):
    """Returns list of (Prog, want_async)."""
    rng = random.Random(seed * 7919 + (1 if tier == "thorough" else 0))
    progs = []
    pid = 0
    if tier == "miri":
        # a handful of small programs for the Miri sub-checks (interpretation is ~3 orders of magnitude slower)
        for prof in [(2, 2), (1, 3, 2), (2, 1)]:
            progs.append((gen_profile_prog(pid, prof, rng), True))
            pid += 1
        while len(progs) < 7:
            p = gen_rand_prog(pid, rng, max_branches=3, max_steps=3)
            if len(list(p.all_acts())) <= 14 and len(p.branches) >= 2:
                progs.append((p, True))
                pid += 1
        return progs
    if tier == "quick":
        sync_n, sync_d, asy_n, asy_d, nrand, njoin, nopt = 4, 3, 3, 2, 110, 40, 50
    else:
        sync_n, sync_d, asy_n, asy_d, nrand, njoin, nopt = 4, 4, 3, 3, 500, 160, 250
    for prof in profiles(sync_n, sync_d):
        want_async = len(prof) <= asy_n and max(prof) <= asy_d
        progs.append((gen_profile_prog(pid, prof, rng), want_async))
        pid += 1
    for _ in range(nrand):
        progs.append((gen_rand_prog(pid, rng), True))
        pid += 1
    for _ in range(nrand // 3):
        # programs that are guaranteed to be instantiable under the six async macros as well
        progs.append((gen_rand_prog(pid, rng, max_branches=4, max_steps=3, async_ok=True), True))
        pid += 1
    for _ in range(njoin):
        progs.append((gen_joiner_prog(pid, rng), True))
        pid += 1
    for _ in range(nopt):
        progs.append((gen_opt_prog(pid, rng), False))
        pid += 1
    cm = gen_capture_matrix(pid)
    progs += cm
    pid = max(p.id for p, _ in progs) + 1
    progs += gen_joiner_capture_matrix(pid)
    pid = max(p.id for p, _ in progs) + 1
    progs += gen_joiner_spelling_matrix(pid)
    pid = max(p.id for p, _ in progs) + 1
    progs += gen_names_matrix(pid, tier, rng)
    pid = max(p.id for p, _ in progs) + 1
    progs += gen_bare_programs(pid)
    return progs


def edition_for(tag):
    """Corpora of odd seeds are compiled as edition-2021 crates, those of even seeds as edition 2018: the macro's output
    takes the edition of the calling crate (closure captures, prelude, reserved syntax differ)."""
    import re
    digits = re.sub(r"\D", "", tag)
    return "2021" if digits and int(digits) % 2 == 1 else "2018"


def write_crate(outdir, join_repo, vrt_path, progs, nshards=16, tag="x", skip=()):
    import os
    os.makedirs(os.path.join(outdir, "src", "bin"), exist_ok=True)
    with open(os.path.join(outdir, "Cargo.toml"), "w") as f:
        f.write("""[package]
name = "probe_corpus"
version = "0.1.0"
edition = "%s"

[dependencies]
join = { path = "%s/join" }
vrt = { path = "%s" }
futures = "0.3"
tokio = { version = "1", features = ["rt", "rt-multi-thread", "time", "sync", "macros"] }

[profile.dev]
debug = 0
incremental = false
opt-level = 0

[workspace]
""" % (edition_for(tag), join_repo, vrt_path))
    shards = [[] for _ in range(nshards)]
    # balance by estimated compile cost
    cost = [0.0] * nshards
    for p, want_async in sorted(progs, key=lambda x: -(len(list(x[0].all_acts())) * (7 if x[1] and not x[0].sync_only() else 1))):
        c = len(list(p.all_acts())) * (7 if want_async and not p.sync_only() else 1)
        i = cost.index(min(cost))
        cost[i] += c
        shards[i].append((p, want_async))
    index = {}
    for si, sh in enumerate(shards):
        mods, cases = [], []
        for p, want_async in sh:
            m, c = render_prog(p, want_async, skip)
            mods.append(m)
            cases += c
            index[p.id] = si
        src = "// generated by gen/probe.py — do not edit\n#![allow(unused_imports, unused_mut, unused_variables, unused_parens, unused_unsafe, clippy::all)]\nuse join::*;\nuse vrt::prelude::*;\n\n" + "\n\n".join(mods)
        src += "\n\npub static CASES: &[Case] = &[\n    " + ",\n    ".join(cases) + "\n];\n\nfn main() {\n    vrt::driver::main(CASES);\n}\n"
        with open(os.path.join(outdir, "src", "bin", "probe_%s_%02d.rs" % (tag, si)), "w") as f:
            f.write(src)
    return index


if __name__ == "__main__":
    import sys
    tier, seed, outdir, join_repo, vrt_path = sys.argv[1], int(sys.argv[2]), sys.argv[3], sys.argv[4], sys.argv[5]
    progs = build_corpus(tier, seed)
    write_crate(outdir, join_repo, vrt_path, progs)
    print("programs=%d" % len(progs))
