#!/usr/bin/env python3
"""Big corpus (C17): large-index programs (two-digit branch / action / operand indices, a capture on every
action) and systematic nestings of the 12 macros in operand, capture and handler position. Rendered as
twins (macro vs plain Rust) for vrt::zoo::main."""
import itertools
import random

SYNC = ["join", "try_join", "join_spawn", "try_join_spawn", "spawn", "try_spawn"]
ASYNC = ["join_async", "try_join_async", "join_async_spawn", "try_join_async_spawn", "async_spawn", "try_async_spawn"]
ALL = SYNC + ASYNC


def rs(s):
    return '"' + s.replace("\\", "\\\\").replace('"', '\\"') + '"'


def K(b, a, o=0):
    return 1000003 * (b + 1) + 7919 * (a + 1) + 13 * o


def big_program(pid, kind, nb, na, nsteps, rng):
    """nb branches x (nsteps steps of na actions); every action has a block capture with a distinct constant.
    Sync / thread kinds mix map, and_then, or_else, map_err and or on Result values (some branches start as
    Err so that the error-side closures really run); async kinds use map on futures."""
    asy = kind in ASYNC
    is_try = kind.startswith("try_")
    ids = [1]

    def nid():
        ids[0] += 1
        return ids[0]

    M = (1 << 64) - 1
    branches, finals, ranges = [], [], []
    cap_order = []
    for b in range(nb):
        lo = ids[0] + 1
        parts = []
        # try macros abort at the first step that ends with an Err: keep their branches Ok throughout
        start_err = (not asy) and (not is_try) and b % 5 == 3
        if asy:
            init = "futures::future::ready(Ok::<u64, u8>(%d))" % (b + 1) if is_try else "futures::future::ready(%du64)" % (b + 1)
            state = (True, b + 1)
        elif start_err:
            init = "Err::<u64, u8>(%d)" % (b % 200)
            state = (False, b % 200)
        else:
            init = "Ok::<u64, u8>(%d)" % (b + 1)
            state = (True, b + 1)
        parts.append(init)
        for s in range(nsteps):
            for a in range(na):
                idx_in_step = (a + 1) if s == 0 else a
                k = K(b, idx_in_step + 100 * s)
                c = nid()
                cap_order.append((s, b, a, c))
                tilde = "~" if (s > 0 and a == 0) else ""
                if asy:
                    if is_try:
                        op = "%s|> { zc(%d); let k = %du64; move |r: Result<u64, u8>| r.map(|v| v.wrapping_mul(31).wrapping_add(k)) }" % (tilde, c, k)
                    else:
                        op = "%s|> { zc(%d); let k = %du64; move |v: u64| v.wrapping_mul(31).wrapping_add(k) }" % (tilde, c, k)
                    state = (True, (state[1] * 31 + k) & M)
                else:
                    which = (2 * b + a + 3 * s) % 5  # asymmetric in (branch, position): mirrored slots differ in kind
                    if which == 0:
                        op = "%s|> { zc(%d); let k = %du64; move |v: u64| v.wrapping_mul(31).wrapping_add(k) }" % (tilde, c, k)
                        if state[0]:
                            state = (True, (state[1] * 31 + k) & M)
                    elif which == 1:
                        op = "%s=> { zc(%d); let k = %du64; move |v: u64| Ok::<u64, u8>(v.wrapping_mul(29).wrapping_add(k)) }" % (tilde, c, k)
                        if state[0]:
                            state = (True, (state[1] * 29 + k) & M)
                    elif which == 2:
                        op = "%s<= { zc(%d); let k = %du64; move |e: u8| Ok::<u64, u8>((e as u64).wrapping_add(k)) }" % (tilde, c, k)
                        if not state[0]:
                            state = (True, (state[1] + k) & M)
                    elif which == 3:
                        op = "%s!> { zc(%d); let k = %du8; move |e: u8| e.wrapping_add(k) }" % (tilde, c, k % 7)
                        if not state[0]:
                            state = (False, (state[1] + k % 7) & 255)
                    else:
                        op = "%s<| { zc(%d); Ok::<u64, u8>(%du64) }" % (tilde, c, k)
                        if not state[0]:
                            state = (True, k)
                parts.append(op)
        branches.append(" ".join(parts))
        finals.append(state)
        ranges.append((lo, ids[0] + 1))
    params = ", ".join("r%d" % i for i in range(nb))
    arr = "[%s]" % ", ".join("r%d" % i for i in range(nb))

    def show(st):
        return "Ok(%d)" % st[1] if st[0] else "Err(%d)" % st[1]
    if is_try:
        h = "map => |%s| %s" % (params, arr)
        rty = "Result<[u64; %d], u8>" % nb
        # multi-step try: the first step that ends with a failing branch aborts; keep it simple and exact by
        # requiring every branch to end every step Ok in try programs (start_err branches recover in step 0
        # only if an or_else / or comes first) — otherwise fall back to the final states
        bad = [st for st in finals if not st[0]]
        if bad and nsteps > 1:
            return None
        ref_final = "Err::<[u64; %d], u8>(%d)" % (nb, bad[0][1]) if bad else "Ok::<[u64; %d], u8>([%s])" % (nb, ", ".join("%du64" % st[1] for st in finals))
    else:
        if asy:
            h = "then => |%s| futures::future::ready(%s)" % (params, arr)
            rty = "[u64; %d]" % nb
            ref_final = "[%s]" % ", ".join("%du64" % st[1] for st in finals)
        else:
            h = "then => |%s| %s" % (params, arr)
            rty = "[Result<u64, u8>; %d]" % nb
            ref_final = "[%s]" % ", ".join(show(st) for st in finals)
    dsl = ", ".join(branches) + ", " + h
    # block operands are evaluated before their step, in branch-then-position order
    ref_caps = " ".join("zc(%d);" % c for (_, _, _, c) in sorted(cap_order))
    return pid, kind, dsl, rty, ref_final, ranges, ids[0] + 2, "big,big:%dx%dx%d" % (nb, na, nsteps), ref_caps, False


def fold_program(pid, kind, nb, rng):
    """Iterator branches with fold / try_fold whose two operands are both block captures at two-digit positions."""
    ids = [1]

    def nid():
        ids[0] += 1
        return ids[0]
    branches, refs, ranges = [], [], []
    for b in range(nb):
        lo = ids[0] + 1
        k0, k1 = K(b, 0, 0) % 1000, K(b, 0, 1) % 97 + 1
        pre = " ".join("|> { zc(%d); let k = %du64; move |v: u64| v.wrapping_add(k) }" % (nid(), (K(b, a) % 13)) for a in range(b % 12))
        pre_sum = sum(K(b, a) % 13 for a in range(b % 12))
        branches.append("(1u64..6) %s ^@ { zc(%d); %du64 }, { zc(%d); let m = %du64; move |acc: u64, v: u64| acc.wrapping_mul(m).wrapping_add(v) }" % (pre, nid(), k0, nid(), k1))
        refs.append("(1u64..6).map(|v| v.wrapping_add(%du64)).fold(%du64, |acc, v| acc.wrapping_mul(%du64).wrapping_add(v))" % (pre_sum, k0, k1))
        ranges.append((lo, ids[0] + 1))
    params = ", ".join("r%d" % i for i in range(nb))
    dsl = ", ".join(branches) + ", then => |%s| [%s]" % (params, params)
    return pid, kind, dsl, "[u64; %d]" % nb, "[%s]" % ", ".join(refs), ranges, ids[0] + 2, "big,big:fold%d" % nb


# ------------------------------------------------------------------------------------------
# nestings

def inner_invocation(kind, v, depth_names, counter, first=None, width=2):
    """An invocation of `kind` computing v + 21 from the expression text `v` (u64) — or `first` + 20 if the initial
    value of its first branch is given (used to nest a third macro inside it).
    Returns (expression text yielding u64 synchronously or a future of u64 if kind is async, is_async)."""
    asy = kind in ASYNC
    is_try = kind.startswith("try_")
    a = counter[0]
    counter[0] += 2
    if first is not None:
        v = "(%s)" % first
        plus = ""
    else:
        plus = " + 1"
    v = v + plus
    # wide variants: `width` - 2 further branches that contribute 0 (a step with many active branches, nested)
    xs = ["x%d" % i for i in range(width - 2)]
    xparams = "".join(", %s" % x for x in xs)
    xsum = "".join(" + %s" % x for x in xs)
    if asy:
        if is_try:
            extra = "".join(" futures::future::ok::<u64, u8>(0)," for _ in xs)
            body = "%s! { futures::future::ok::<u64, u8>(%s) |> |r| { zt(%d); r } ~|> |r| r, futures::future::ok::<u64, u8>(20) |> |r| { zt(%d); r },%s map => |a, b%s| a + b%s }" % (kind, v, a, a + 1, extra, xparams, xsum)
            return "async move { %s.await.unwrap() }" % body, True
        extra = "".join(" futures::future::ready(0u64)," for _ in xs)
        body = "%s! { futures::future::ready(%s) |> |x| { zt(%d); x } ~|> |x| x, futures::future::ready(20u64) |> |x| { zt(%d); x },%s then => |a, b%s| futures::future::ready(a + b%s) }" % (kind, v, a, a + 1, extra, xparams, xsum)
        return body, True
    if width > 2:
        extra = "".join(" Some(0u64)," for _ in xs)
        if is_try:
            return "%s! { Some(%s) |> |x| { zt(%d); x } ~|> |x| x, Some(20u64) |> |x| { zt(%d); x },%s map => |a, b%s| a + b%s }.unwrap()" % (kind, v, a, a + 1, extra, xparams, xsum), False
        xo = "".join(", %s: Option<u64>" % x for x in xs)
        xu = "".join(" + %s.unwrap()" % x for x in xs)
        return "%s! { Some(%s) |> |x| { zt(%d); x } ~|> |x| x, Some(20u64) |> |x| { zt(%d); x },%s then => |a: Option<u64>, b: Option<u64>%s| a.unwrap() + b.unwrap()%s }" % (kind, v, a, a + 1, extra, xo, xu), False
    # thread-spawning inner macros: the two branches meet at a rendezvous — nested or not, the branches of a step are
    # alive at the same time (`rdv` adds 0 when both are inside together, 1000 when one waited in vain)
    r0 = " + rdv(%d, 2)" % a if "spawn" in kind else ""
    if is_try:
        return "%s! { Some(%s) |> |x| { zt(%d); x%s } ~|> |x| x, Some(20u64) |> |x| { zt(%d); x%s }, map => |a, b| a + b }.unwrap()" % (kind, v, a, r0, a + 1, r0), False
    return "%s! { Some(%s) |> |x| { zt(%d); x%s } ~|> |x| x, Some(20u64) |> |x| { zt(%d); x%s }, then => |a: Option<u64>, b: Option<u64>| a.unwrap() + b.unwrap() }" % (kind, v, a, r0, a + 1, r0), False


def expected_names(kinds, caller="main"):
    """Thread names seen by the two branches of the innermost macro, per kind chain (outer..inner)."""
    def rec(ks, name):
        k = ks[0]
        threads = "spawn" in k and "async" not in k
        out = []
        for b in range(2):
            n = ("%s_join_%d" % (name, b)) if threads else name
            out.append(n)
        return out
    return rec


def nest_program(pid, outer, inner, position, rng, third=None, width=2):
    """outer { branch0 uses inner in `position` (operand / capture / handler), branch1 plain }.
    Async inner under sync outer is driven by its own runtime (run_async_val); async outer awaits async inner
    and runs sync inner inline."""
    o_asy, i_asy = outer in ASYNC, inner in ASYNC
    o_try = outer.startswith("try_")
    counter = [10]
    v = "v"
    if third:
        # depth 3: the innermost macro computes the initial value of the middle macro's first branch
        c3 = [20]
        innermost_expr, innermost_fut = inner_invocation(third, v, None, c3)
        if innermost_fut:
            # inside an async middle macro the expression may simply await; inside a sync one it gets its own runtime
            first = "%s.await" % innermost_expr if i_asy else "run_async_val(%s)" % innermost_expr
        else:
            first = innermost_expr
        inner_expr, inner_is_fut = inner_invocation(inner, v, None, counter, first=first)
    else:
        inner_expr, inner_is_fut = inner_invocation(inner, v, None, counter, width=width)
    # value of using the inner macro on v, as a sync u64 expression
    if inner_is_fut:
        sync_use = "run_async_val(%s)" % inner_expr if not o_asy else None
    else:
        sync_use = inner_expr
    names_id = 5
    if not o_asy:
        val = "Some(3u64)" if not o_try else "Some(3u64)"
        if position == "operand":
            b0 = "%s |> |v: u64| { %s }" % (val, sync_use)
        elif position == "capture":
            b0 = "%s |> { zc(2); let base = { let v = 4u64; %s }; move |v: u64| v + base }" % (val, sync_use)
        else:
            b0 = "%s |> |v: u64| v + 1" % val
        b1 = "Some(100u64) |> |x| x + 1 ~|> |x| x"
        if o_try:
            if position == "handler":
                h = "map => |a: u64, b: u64| { let v = a + b; %s }" % sync_use
            else:
                h = "map => |a: u64, b: u64| a + b"
            rty = "Option<u64>"
        else:
            if position == "handler":
                h = "then => |a: Option<u64>, b: Option<u64>| { let v = a.unwrap() + b.unwrap(); %s }" % sync_use
            else:
                h = "then => |a: Option<u64>, b: Option<u64>| a.unwrap() + b.unwrap()"
            rty = "u64"
        dsl = "%s, %s, %s" % (b0, b1, h)
    else:
        # async outer: values are futures of u64 (try: TryFuture<u64, u8>)
        def lift(e):
            # expression yielding a future of u64 from the inner use
            if inner_is_fut:
                return e
            return "futures::future::ready(%s)" % e
        fut_use = lift(inner_expr)
        if o_try:
            init0, init1 = "futures::future::ok::<u64, u8>(3)", "futures::future::ok::<u64, u8>(100)"
            if position == "operand":
                b0 = "%s => |v: u64| async move { Ok::<u64, u8>(%s.await) }" % (init0, fut_use)
            elif position == "capture":
                b0 = "%s => { zc(2); |v: u64| async move { let base = { let v = 4u64; %s.await }; Ok::<u64, u8>(v + base) } }" % (init0, fut_use)
            else:
                b0 = "%s |> |r: Result<u64, u8>| r.map(|v| v + 1)" % init0
            b1 = "%s |> |r: Result<u64, u8>| r.map(|x| x + 1) ~|> |r: Result<u64, u8>| r" % init1
            if position == "handler":
                h = "and_then => |a: u64, b: u64| async move { let v = a + b; Ok::<u64, u8>(%s.await) }" % fut_use
            else:
                h = "map => |a: u64, b: u64| a + b"
            rty = "Result<u64, u8>"
        else:
            init0, init1 = "futures::future::ready(3u64)", "futures::future::ready(100u64)"
            if position == "operand":
                b0 = "%s -> |f: futures::future::Ready<u64>| async move { let v: u64 = f.await; %s.await }" % (init0, fut_use)
            elif position == "capture":
                b0 = "%s -> { zc(2); |f: futures::future::Ready<u64>| async move { let w: u64 = f.await; let base = { let v = 4u64; %s.await }; w + base } }" % (init0, fut_use)
            else:
                b0 = "%s |> |v: u64| v + 1" % init0
            b1 = "%s |> |x: u64| x + 1 ~|> |x: u64| x" % init1
            if position == "handler":
                h = "then => |a: u64, b: u64| async move { let v = a + b; %s.await }" % fut_use
            else:
                h = "then => |a: u64, b: u64| futures::future::ready(a + b)"
            rty = "u64"
        dsl = "%s, %s, %s" % (b0, b1, h)
    # expected value
    inc = 41 if third else 21
    if position == "operand":
        val = (3 + inc) + 101
    elif position == "capture":
        val = (3 + (4 + inc)) + 101
    else:
        val = (3 + 1 + 101) + inc
    if not o_asy:
        ref_val = "Some(%du64)" % val if o_try else "%du64" % val
    else:
        ref_val = "Ok::<u64, u8>(%d)" % val if o_try else "%du64" % val
    # expected thread names of the two innermost branches
    o_threads = outer in ("join_spawn", "try_join_spawn", "spawn", "try_spawn")
    i_threads = inner in ("join_spawn", "try_join_spawn", "spawn", "try_spawn")
    # where does the inner macro run? operand/capture of branch 0: in branch 0's thread if the outer spawns
    # (captures are evaluated by the caller before the step); handler: caller.
    if position == "operand" and o_threads:
        base = "main_join_0"
    else:
        base = "main"
    # an async inner driven by run_async_val runs on a fresh thread-less current-thread runtime on the same thread
    names = []
    for b in range(2):
        names.append("%s_join_%d" % (base, b) if i_threads else base)
    ref_names = " ".join("zn(%d, %s);" % (10 + b, rs(names[b])) for b in range(2))
    ranges = [(10, 11), (11, 12), (1, 10)]
    tags = "nest,nest:%s,pair:%s>%s" % (position, outer, inner)
    if width > 2:
        tags = "nest,nest:%s,widenest:%d:%s>%s" % (position, width, outer, inner)
    if third:
        # the innermost macro is evaluated as the initial value of the middle macro's branch 0: in that branch's
        # thread if the middle macro spawns threads (and has >1 active branch, which it has)
        t_threads = third in ("join_spawn", "try_join_spawn", "spawn", "try_spawn")
        base3 = "%s_join_0" % base if i_threads else base
        names3 = ["%s_join_%d" % (base3, b) if t_threads else base3 for b in range(2)]
        ref_names += " " + " ".join("zn(%d, %s);" % (20 + b, rs(names3[b])) for b in range(2))
        ranges = [(10, 11), (11, 12), (20, 21), (21, 22), (1, 10)]
        tags = "nest,nest3,nest:%s3,triple:%s>%s>%s" % (position, outer, inner, third)
    return pid, outer, dsl, rty, ref_val, ranges, 100, tags, ref_names, (position == "capture")


def scope_programs(pid0):
    """Scope programs (C12 / C13): the caller has variables with the same names (and types) as `let`-named branches.
    Every user expression keeps its call-site meaning: step-0 operands, step-0 captures and the handler expression see the
    caller's variables, captures of later steps see the branches' latest step results (C12), the macro's value is
    f(..) for the f the user wrote (C13). The handler stands at every position among the branches."""
    out = []
    pid = pid0
    for kind in ALL:
        asy = kind in ASYNC
        tr = kind.startswith("try_")
        if not asy:
            prelude = "let x = Some(1000u32); let y = Some(2000u32);"
            br = ["let x = Some(1u32) |> |v| v + 1",
                  "let y = Some(5u32) |> |v| v + 2 ~|> |v| v + 1",
                  "Some(7u32) |> { let k = x; move |v| v + k.unwrap() }",
                  "Some(0u32) ~|> { let k = x.unwrap() + y.unwrap(); move |v| v + k }"]
            if tr:
                hs = [("map", "map => move |a, b, c, d| (a, b, c, d, x, y)"), ("and_then", "and_then => move |a, b, c, d| Some((a, b, c, d, x, y))")]
                rty = "Option<(u32, u32, u32, u32, Option<u32>, Option<u32>)>"
                exp = "Some((2, 8, 1007, 9, Some(1000), Some(2000)))"
            else:
                hs = [("then", "then => move |a, b, c, d| (a, b, c, d, x, y)")]
                rty = "(Option<u32>, Option<u32>, Option<u32>, Option<u32>, Option<u32>, Option<u32>)"
                exp = "(Some(2), Some(8), Some(1007), Some(9), Some(1000), Some(2000))"
        elif not tr:
            prelude = "let x = 1000u32; let y = 2000u32;"
            br = ["let x = futures::future::ready(1u32) |> |v| v + 1",
                  "let y = futures::future::ready(5u32) |> |v| v + 2 ~|> |v| v + 1",
                  "futures::future::ready(7u32) |> { let k = x; move |v| v + k }",
                  "futures::future::ready(0u32) ~|> { let k = x + y; move |v| v + k }"]
            hs = [("then", "then => move |a, b, c, d| futures::future::ready((a, b, c, d, x, y))")]
            rty = "(u32, u32, u32, u32, u32, u32)"
            exp = "(2, 8, 1007, 9, 1000, 2000)"
        else:
            prelude = "let x: Result<u32, u8> = Ok(1000); let y: Result<u32, u8> = Ok(2000);"
            R = "Result<u32, u8>"
            br = ["let x = futures::future::ok::<u32, u8>(1) |> |r: %s| r.map(|v| v + 1)" % R,
                  "let y = futures::future::ok::<u32, u8>(5) |> |r: %s| r.map(|v| v + 2) ~|> |r: %s| r.map(|v| v + 1)" % (R, R),
                  "futures::future::ok::<u32, u8>(7) |> { let k = x; move |r: %s| r.map(|v| v + k.unwrap()) }" % R,
                  "futures::future::ok::<u32, u8>(0) ~|> { let k = x.unwrap() + y.unwrap(); move |r: %s| r.map(|v| v + k) }" % R]
            hs = [("map", "map => move |a, b, c, d| (a, b, c, d, x, y)"),
                  ("and_then", "and_then => move |a, b, c, d| futures::future::ok::<_, u8>((a, b, c, d, x, y))")]
            rty = "Result<(u32, u32, u32, u32, Result<u32, u8>, Result<u32, u8>), u8>"
            exp = "Ok::<_, u8>((2u32, 8u32, 1007u32, 9u32, Ok::<u32, u8>(1000), Ok::<u32, u8>(2000)))"
        for hname, h in hs:
            for pos in range(len(br) + 1):
                parts = list(br)
                parts.insert(pos, h)
                dsl = ", ".join(parts)
                tags = "scope,scope:%s@%d" % (hname, pos)
                out.append((pid, kind, dsl, rty, exp, [(1, 2)], 4, tags, "", False, prelude))
                pid += 1
    return out


CLASH_NAMES = ["result", "results", "value", "values", "res", "r", "r0", "r1", "step", "step_results", "sr0", "handler", "h", "joiner", "branch",
               "branch_index", "index", "b0", "tmp", "t", "v", "it", "i", "thread_builder", "builder", "handle", "handles", "task", "fut", "future",
               "futures", "err", "e", "ok", "out", "output", "acc", "item", "inner", "wrapper", "ew0", "args", "f", "func", "name", "thread_name",
               "inspect", "spawn", "rs", "tb", "tokio", "join", "std", "core"]


def clash_programs(pid0):
    """The caller has local variables with names a macro might be tempted to use internally (`result`, `step`, `handler`,
    `thread_builder`, ...). User closures of step 0, of a later step, inside a `>>>` wrapper, a later-step capture and the
    handler read all of them: every user expression keeps its call-site meaning, whatever the macro calls its own bindings."""
    out = []
    pid = pid0
    n = len(CLASH_NAMES)
    prelude = " ".join("let %s = %du64;" % (nm, 1 << (k % 40)) for k, nm in enumerate(CLASH_NAMES))
    total = sum(1 << (k % 40) for k in range(n))
    allsum = " + ".join(CLASH_NAMES)
    for kind in ALL:
        asy = kind in ASYNC
        tr = kind.startswith("try_")
        if not asy:
            br = ["Some(0u64) |> move |x| x + %s ~|> move |x| x + %s" % (allsum, allsum),
                  "Some(0u64) |> >>> -> move |x: u64| x + %s <<< ~|> { let k = %s; move |x| x + k }" % (allsum, allsum)]
            if tr:
                h = "map => move |a, b| a + b + %s" % allsum
                rty, exp = "Option<u64>", "Some(%du64)" % (5 * total)
            else:
                h = "then => move |a: Option<u64>, b: Option<u64>| a.unwrap() + b.unwrap() + %s" % allsum
                rty, exp = "u64", "%du64" % (5 * total)
        elif not tr:
            br = ["futures::future::ready(0u64) |> move |x| x + %s ~|> move |x| x + %s" % (allsum, allsum),
                  "futures::future::ready(0u64) |> move |x| x + %s ~|> { let k = %s; move |x| x + k }" % (allsum, allsum)]
            h = "then => move |a, b| futures::future::ready(a + b + %s)" % allsum
            rty, exp = "u64", "%du64" % (5 * total)
        else:
            R = "Result<u64, u8>"
            br = ["futures::future::ok::<u64, u8>(0) |> move |q9: %s| q9.map(|x| x + %s) ~|> move |q9: %s| q9.map(|x| x + %s)" % (R, allsum, R, allsum),
                  "futures::future::ok::<u64, u8>(0) |> move |q9: %s| q9.map(|x| x + %s) ~|> { let k = %s; move |q9: %s| q9.map(|x| x + k) }" % (R, allsum, allsum, R)]
            h = "map => move |a, b| a + b + %s" % allsum
            rty, exp = "Result<u64, u8>", "Ok::<u64, u8>(%d)" % (5 * total)
        out.append((pid, kind, ", ".join(br + [h]), rty, exp, [(1, 2)], 4, "scope,clash", "", False, prelude))
        pid += 1
    return out


def lazy_false_programs(pid0):
    """`lazy_branches(false)` on the thread-spawning macros: the branch values are the closures to run, whatever way they are
    written — closure literal, block that builds one (hoisted), variable, `fn` path, call returning `impl FnOnce`, closure
    forwarded as a `$e:expr` fragment. Each runs on its own named thread."""
    out = []
    pid = pid0
    spellings = [
        ("literal", "", "move || { zt(10); Some(1u64) }", "move || { zt(11); Some(2u64) }"),
        ("block", "", "{ let k = 1u64; move || { zt(10); Some(k) } }", "{ let k = 2u64; move || { zt(11); Some(k) } }"),
        ("variable", "let c0 = move || { zt(10); Some(1u64) }; let c1 = move || { zt(11); Some(2u64) };", "c0", "c1"),
        ("fn_path", "fn f0() -> Option<u64> { zt(10); Some(1) } fn f1() -> Option<u64> { zt(11); Some(2) }", "f0", "f1"),
        ("call", "fn mk(id: u16, v: u64) -> impl FnOnce() -> Option<u64> + Send + 'static { move || { zt(id); Some(v) } }", "mk(10, 1)", "mk(11, 2)"),
        ("fragment", "", None, None),
    ]
    for kind in ("join_spawn", "try_join_spawn", "spawn", "try_spawn"):
        tr = kind.startswith("try_")
        h = "map => |a, b| a + b" if tr else "then => |a: Option<u64>, b: Option<u64>| a.unwrap() + b.unwrap()"
        rty = "Option<u64>" if tr else "u64"
        exp = "Some(3u64)" if tr else "3u64"
        for name, prelude, b0, b1 in spellings:
            if name == "fragment":
                prelude = "macro_rules! __lf { ($a:expr, $b:expr) => { %s! { lazy_branches(false) $a, $b, %s } } }" % (kind, h)
                dsl = "/*via __lf!*/ lazy_branches(false) move || { zt(10); Some(1u64) }, move || { zt(11); Some(2u64) }, %s" % h
                entry = (pid, kind, dsl, rty, exp, [(10, 11), (11, 12)], 100, "nest,lazyfalse,lazyfalse:%s,spawn" % name,
                         "zn(10, \"main_join_0\"); zn(11, \"main_join_1\");", False, prelude + " let __via = 1;")
            else:
                dsl = "lazy_branches(false) %s, %s, %s" % (b0, b1, h)
                entry = (pid, kind, dsl, rty, exp, [(10, 11), (11, 12)], 100, "nest,lazyfalse,lazyfalse:%s,spawn" % name,
                         "zn(10, \"main_join_0\"); zn(11, \"main_join_1\");", False, prelude)
            out.append(entry)
            pid += 1
    return out


def scope_programs_2(pid0):
    """More scope programs (C12 / C13).
    (a) a `let`-named branch whose first value is a block, while another branch's *first value* is the caller's variable of
        the same name: the branch name is not in scope in step 0.
    (b) a block that reaches the macro as a `$e:expr` fragment is still an operand written as a block: it is evaluated in
        front of its step like one written in place, with or without a `let` name on its branch (tickets show the order;
        sequential macros only). (Before fix 7bf5e8e of /repo such a block was evaluated in its place.)
    (c) the async try macros over `Option`s: `custom_joiner(::futures::join!) transpose_results(true)` with `map` /
        `and_then` handlers, success and failure."""
    out = []
    pid = pid0
    # (a)
    for kind in ALL:
        asy = kind in ASYNC
        tr = kind.startswith("try_")
        if asy:
            continue
        prelude = "let x = Some(100u32);"
        br = ["let x = { Some(1u32) } |> |v| v + 1", "x |> |v| v + 5", "Some(0u32) ~|> { let k = x.unwrap(); move |v| v + k }"]
        if tr:
            h, rty, exp = "map => |a, b, c| (a, b, c)", "Option<(u32, u32, u32)>", "Some((2, 105, 2))"
        else:
            h, rty, exp = "then => |a, b, c| (a, b, c)", "(Option<u32>, Option<u32>, Option<u32>)", "(Some(2), Some(105), Some(2))"
        out.append((pid, kind, ", ".join(br + [h]), rty, exp, [(1, 2)], 4, "scope,scope:named_block_head", "", False, prelude))
        pid += 1
    # (b)
    for kind in ("join", "try_join"):
        tr = kind.startswith("try_")
        for named in (False, True):
            nm = ("let a = ", "let b = ") if named else ("", "")
            h = "map => |a, b| (a, b)" if tr else "then => |a, b| (a, b)"
            prelude = ("let __tk = ::std::cell::Cell::new(0u32); let tick = || { __tk.set(__tk.get() + 1); Some(__tk.get()) }; "
                       "macro_rules! __fb { ($e:expr) => { %s! { %stick() |> |v| v, %s$e |> |v| v, %s } } }" % (kind, nm[0], nm[1], h))
            rty = "Option<(u32, u32)>" if tr else "(Option<u32>, Option<u32>)"
            exp = "Some((2, 1))" if tr else "(Some(2), Some(1))"
            dsl = "/*via __fb!({ tick() })*/ %stick() |> |v| v, %s{ tick() } |> |v| v, %s" % (nm[0], nm[1], h)
            out.append((pid, kind, dsl, rty, exp, [(1, 2)], 4, "scope,scope:forwarded_block_%s,fwdblock" % ("named" if named else "unnamed"), "", False, prelude))
            pid += 1
    # (d) a step is a barrier for names as well: a plain closure operand of step k that reads a sibling's name sees that
    #     sibling's step k-1 result, also when the sibling is listed before the reader
    for kind in ALL:
        if kind in ASYNC:
            continue
        tr = kind.startswith("try_")
        br = ["let a = Some(1u32) |> |v| v + 1 ~|> |v| v * 10 ~|> |v| v + 1",
              "let b = Some(5u32) ~|> move |v| v + a.unwrap() ~|> move |v| v + a.unwrap()"]
        if tr:
            h, rty, exp = "map => |a, b| (a, b)", "Option<(u32, u32)>", "Some((21, 27))"
        else:
            h, rty, exp = "then => |a, b| (a, b)", "(Option<u32>, Option<u32>)", "(Some(21), Some(27))"
        out.append((pid, kind, ", ".join(br + [h]), rty, exp, [(1, 2)], 4, "scope,scope:sibling_name_in_plain_closure", "", False, ""))
        pid += 1
    # (c)
    for kind in ("try_join_async", "try_join_async_spawn", "try_async_spawn"):
        # (`and_then` is built with TryFutureExt::and_then, which exists for Result outputs only: `map` is the handler here)
        for hname, h, okexp in (("map", "map => |a, b| a + b", "Some(9u32)"), ("none", "", "Some((4u32, 5u32))")):
            for fail in (False, True):
                second = "futures::future::ready(%s) |> |o: Option<u32>| o" % ("None::<u32>" if fail else "Some(5u32)")
                br = ["futures::future::ready(Some(1u32)) |> |o: Option<u32>| o.map(|v| v + 1) ~|> |o: Option<u32>| o.map(|v| v * 2)", second]
                dsl = "custom_joiner(::futures::join!) transpose_results(true) " + ", ".join(br + ([h] if h else []))
                out.append((pid, kind, dsl, "Option<u32>" if h else "Option<(u32, u32)>", ("None::<u32>" if h else "None::<(u32, u32)>") if fail else okexp, [(1, 2)], 4, "scope,scope:async_option_%s_%s" % (hname, "none" if fail else "some"), "", False, ""))
                pid += 1
    # (e) an inner invocation that is forwarded, handler included, as raw tokens of a caller's macro_rules, nested in an operand /
    #     the handler of an outer invocation that has a handler of its own: each handler is called by its own macro
    for kind in ("join", "try_join", "join_spawn", "try_join_spawn"):
        tr = kind.startswith("try_")
        inner = "try_join" if tr else "join"
        prelude = "macro_rules! __w { ($($t:tt)*) => { %s! { $($t)* } } }" % inner
        if tr:
            dsl = "Some(1u32) => |v: u32| __w!(Some(v), Some(10u32), map => |a: u32, b: u32| a + b), Some(2u32), map => |a, b| a * b"
            rty, exp = "Option<u32>", "Some(22u32)"
            dsl2 = "Some(1u32), Some(2u32), and_then => |x: u32, y: u32| __w!(Some(x), Some(y + 10), map => |a: u32, b: u32| a + b)"
            rty2, exp2 = "Option<u32>", "Some(13u32)"
        else:
            dsl = "1u32 -> |v: u32| __w!(v, 10u32, then => |a: u32, b: u32| a + b), 2u32, then => |a, b| a * b"
            rty, exp = "u32", "22u32"
            dsl2 = "1u32, 2u32, then => |x: u32, y: u32| __w!(x, y + 10, then => |a: u32, b: u32| a + b)"
            rty2, exp2 = "u32", "13u32"
        out.append((pid, kind, dsl, rty, exp, [(1, 2)], 4, "scope,nest,nest:forwarded_inner_handler_in_operand", "", False, prelude))
        pid += 1
        out.append((pid, kind, dsl2, rty2, exp2, [(1, 2)], 4, "scope,nest,nest:forwarded_inner_handler_in_handler", "", False, prelude))
        pid += 1
    return out


def render(entry):
    prelude = ""
    if len(entry) == 8:
        pid, kind, dsl, rty, ref_final, ranges, max_id, tags = entry
        ref_pre, has_cap = "", False
    elif len(entry) == 11:
        pid, kind, dsl, rty, ref_final, ranges, max_id, tags, ref_pre, has_cap, prelude = entry
    else:
        pid, kind, dsl, rty, ref_final, ranges, max_id, tags, ref_pre, has_cap = entry
    asy = kind in ASYNC
    # captures of the reference: big programs log their zc ids in order; nests log zc(2) when position == capture
    if "big" in tags and ref_pre:
        ref_body = "%s let __res: %s = %s; __res" % (ref_pre, rty, ref_final)
    elif "big" in tags:
        caps = " ".join("zc(%d);" % c for c in cap_ids(dsl))
        # hoisting order: all captures of a step before its chains; with a single global order of ids per step
        ref_body = "%s let __res: %s = %s; __res" % (caps, rty, ref_final)
    else:
        ref_body = "%s %s let __res: %s = %s; __res" % ("zc(2);" if has_cap else "", ref_pre, rty, ref_final)
    if asy:
        m_fn = "pub fn m_%d() -> String { run_async(async { %s let __res: %s = %s! { %s }.await; dbg(__res) }) }" % (pid, prelude, rty, kind, dsl)
        r_fn = "pub fn r_%d() -> String { dbg({ %s }) }" % (pid, ref_body)
    elif "fwdblock" in tags:
        m_fn = "pub fn m_%d() -> String { %s let __res: %s = __fb!({ tick() }); dbg(__res) }" % (pid, prelude, rty)
        r_fn = "pub fn r_%d() -> String { dbg({ %s }) }" % (pid, ref_body)
    elif "lazyfalse:fragment" in tags:
        m_fn = "pub fn m_%d() -> String { %s let __res: %s = __lf!(move || { zt(10); Some(1u64) }, move || { zt(11); Some(2u64) }); dbg(__res) }" % (pid, prelude, rty)
        r_fn = "pub fn r_%d() -> String { dbg({ %s }) }" % (pid, ref_body)
    else:
        m_fn = "pub fn m_%d() -> String { %s let __res: %s = %s! { %s }; dbg(__res) }" % (pid, prelude, rty, kind, dsl)
        r_fn = "pub fn r_%d() -> String { dbg({ %s }) }" % (pid, ref_body)
    brs = ", ".join("(%d, %d)" % r for r in ranges)
    text = dsl if len(dsl) < 1500 else dsl[:700] + " ... " + dsl[-700:]
    ent = "Twin { id: %d, kind: %s, m: m_%d, r: r_%d, srcs: &[], branches: &[%s], tags: %s, text: %s, reference: %s, max_id: %d }" % (
        pid, rs(kind), pid, pid, brs, rs(tags), rs(text), rs(ref_body if len(ref_body) < 600 else ref_body[:600] + " ..."), max_id)
    return m_fn + "\n" + r_fn, ent


def cap_ids(dsl):
    import re
    return [int(x) for x in re.findall(r"zc\((\d+)\)", dsl)]


def build_corpus(tier, seed):
    rng = random.Random(seed * 65537 + 11)
    entries = []
    pid = 0
    # (a) large indices
    shapes_seq = [(24, 24, 1), (12, 6, 4), (3, 2, 12), (24, 1, 2)] if tier == "quick" else [(24, 24, 1), (24, 24, 2), (12, 12, 4), (3, 2, 12), (13, 11, 3), (24, 1, 2)]
    shapes_conc = [(12, 12, 1), (11, 3, 3)] if tier == "quick" else [(12, 12, 1), (12, 12, 2), (11, 3, 3), (12, 2, 6)]
    for kind in ALL:
        shapes = shapes_seq if kind in ("join", "try_join") else shapes_conc
        for (nb, na, ns) in shapes:
            e = big_program(pid, kind, nb, na, ns, rng)
            if e is None:
                continue
            entries.append(e)
            pid += 1
    for kind in ("join", "join_spawn"):
        entries.append(fold_program(pid, kind, 12 if kind == "join_spawn" else 24, rng))
        pid += 1
    # (b) nestings: every ordered pair in three positions
    for outer, inner in itertools.product(ALL, repeat=2):
        for position in ("operand", "capture", "handler"):
            entries.append(nest_program(pid, outer, inner, position, rng))
            pid += 1
    # (b') a wide inner macro (a step with 6 / 11 active branches) in operand position of every outer kind: whatever the
    # expansion does for many branches, it must still be usable where the outer kind needs Send / 'static
    for outer, inner in itertools.product(ALL, repeat=2):
        if tier == "quick" and not ("spawn" in outer or "async" in inner):
            continue
        entries.append(nest_program(pid, outer, inner, "operand", rng, width=6 if (pid % 2 == 0 or tier == "quick") else 11))
        pid += 1
    # (c) depth 3: every ordered triple in operand position (thorough), a seeded sample of 72 (quick)
    triples = list(itertools.product(ALL, repeat=3))
    if tier == "quick":
        rng.shuffle(triples)
        triples = triples[:72]
    for outer, inner, third in triples:
        entries.append(nest_program(pid, outer, inner, "operand", rng, third=third))
        pid += 1
    # (d) scope programs: caller variables named like `let`-named branches, handler at every position
    entries += scope_programs(pid)
    pid = max(e[0] for e in entries) + 1
    entries += scope_programs_2(pid)
    pid = max(e[0] for e in entries) + 1
    entries += lazy_false_programs(pid)
    pid = max(e[0] for e in entries) + 1
    # (e) caller variables with names a macro might use internally
    entries += clash_programs(pid)
    return entries


def edition_for(tag):
    """Corpora of odd seeds are compiled as edition-2021 crates, those of even seeds as edition 2018: the macro's output
    takes the edition of the calling crate (closure captures, prelude, reserved syntax differ)."""
    import re
    digits = re.sub(r"\D", "", tag)
    return "2021" if digits and int(digits) % 2 == 1 else "2018"


def write_crate(outdir, join_repo, vrt_path, entries, nshards=16, tag="x", skip=()):
    import os
    os.makedirs(os.path.join(outdir, "src", "bin"), exist_ok=True)
    with open(os.path.join(outdir, "Cargo.toml"), "w") as f:
        f.write("""[package]
name = "big_corpus"
version = "0.1.0"
edition = "%s"

[dependencies]
join = { path = "%s/join" }
vrt = { path = "%s" }
futures = "0.3"
tokio = { version = "1", features = ["rt", "rt-multi-thread", "time", "sync", "macros"] }

[profile.dev]
debug = 0
incremental = false
opt-level = 0

[workspace]
""" % (edition_for(tag), join_repo, vrt_path))
    shards = [[] for _ in range(nshards)]
    # the big programs are expensive to compile: spread them first
    ordered = sorted(entries, key=lambda e: -len(e[2]))
    cost = [0] * nshards
    for e in ordered:
        if e[0] in skip:
            continue
        i = cost.index(min(cost))
        cost[i] += len(e[2]) * (6 if e[1] in ASYNC else 1)
        shards[i].append(e)
    for si, sh in enumerate(shards):
        fns, ents = [], []
        for e in sh:
            f, ent = render(e)
            fns.append("// twin %d\n%s" % (e[0], f))
            ents.append(ent)
        body = "\n".join(fns)
        if si % 2 == 1:
            from zoo import shadow_wrap
            body = shadow_wrap(body)
            ents = [e.replace('tags: "', 'tags: "shadowed,', 1) for e in ents]
        src = ("// generated by gen/big.py — do not edit\n#![allow(unused_imports, unused_mut, unused_variables, unused_parens, unused_braces, dead_code, clippy::all)]\n#![recursion_limit = \"1024\"]\n"
               "use join::*;\nuse vrt::zoo::*;\nuse futures as fx;\n\n" + body +
               "\n\npub static TWINS: &[Twin] = &[\n    " + ",\n    ".join(ents) + "\n];\n\nfn main() {\n    vrt::zoo::main(TWINS);\n}\n")
        with open(os.path.join(outdir, "src", "bin", "big_%s_%02d.rs" % (tag, si)), "w") as f:
            f.write(src)


if __name__ == "__main__":
    import sys
    tier, seed, outdir, join_repo, vrt_path = sys.argv[1], int(sys.argv[2]), sys.argv[3], sys.argv[4], sys.argv[5]
    entries = build_corpus(tier, seed)
    write_crate(outdir, join_repo, vrt_path, entries)
    print("programs=%d" % len(entries))
