#!/usr/bin/env python3
"""Zoo corpus generator: type-directed operator chains over several value "worlds", each rendered
twice into the same binary — m_N (macro invocation) and r_N (the documented method chain in plain
Rust with the same operand text). See DESIGN.md section 3/C01 and appendix A."""
import random
from collections import deque

SYNC_KINDS = ["join", "try_join", "join_spawn", "try_join_spawn", "spawn", "try_spawn"]
ASYNC_KINDS = ["join_async", "try_join_async", "join_async_spawn", "try_join_async_spawn", "async_spawn", "try_async_spawn"]
ALL_KINDS = SYNC_KINDS + ASYNC_KINDS

RUST = {
    "O": "Option<u32>", "OO": "Option<Option<u32>>", "OP": "Option<(u32, u32)>", "R": "Result<u32, u8>",
    "RR": "Result<Result<u32, u8>, u8>", "P": "u32", "V": "Vec<u32>", "VV": "(Vec<u32>, Vec<u32>)", "B": "bool",
    "U": "usize", "T2O": "(Option<u32>, Option<u32>)", "VP": "Vec<(u32, u32)>", "VE": "Vec<(usize, u32)>",
    "PR": "&u32", "E": "u8", "N": "()", "PP": "(u32, u32)", "OREF": "&Option<u32>", "RREF": "&Result<u32, u8>",
    "OV": "Option<Vec<u32>>", "RV": "Result<Vec<u32>, u8>",
}
TERMINAL = {"O", "OO", "OP", "R", "RR", "P", "V", "VV", "B", "U", "T2O", "VP", "VE", "OV", "RV"}
ITER = {"I", "IP", "IE", "IO", "IR", "II"}
# async worlds: futures (by output), try-future, streams (by item). Only generated inside async macros.
FUT_OUT = {"FP": "u32", "FO": "Option<u32>", "TF": "Result<u32, u8>", "FV": "Vec<u32>", "FVV": "(Vec<u32>, Vec<u32>)", "FU": "usize"}
ASYNC_WORLDS = set(FUT_OUT) | {"FFP", "S", "SP", "SE", "SR", "SS", "FB", "TTF", "SFO"}
RDY = "futures::future::ready"


class Member:
    """One action of a chain."""

    def __init__(self, op, spelling, operands=None, to=None, inner=None, explicit_close=True, deferred=False, caps=None, tag=None):
        self.op = op                  # method name in the reference ("map", "and_then", ..., "then", "inspect", "dot")
        self.spelling = spelling      # DSL operator
        self.operands = operands or []  # list of operand texts
        self.to = to
        self.inner = inner            # list of Members if wrapper, else None
        self.explicit_close = explicit_close
        self.deferred = deferred
        self.caps = caps or []        # for each operand: capture id or 0 (block operand)
        self.tag = tag or op


class G:
    def __init__(self, rng, flavour):
        self.rng = rng
        self.flavour = flavour  # "sync" or "async"
        self.next_id = 1
        self.srcs = []
        self.spellings = set()
        self.force_annot = False
        self.force_capture = False

    def nid(self):
        i = self.next_id
        self.next_id += 1
        return i

    # ---- closure spellings -------------------------------------------------------------------
    def cb(self, param, ptype, logexpr, body, rtype, annotate=False, allow_capture=True):
        """Returns (operand text, capture id or 0). `annotate` forces parameter types (needed when the
        closure is separated from its use site: `->`, sync `??`, hoisted block captures)."""
        r = self.rng
        i = self.nid()
        logs = "z(%d, %s); " % (i, logexpr) if logexpr else "z0(%d); " % i
        forms_free = ["plain", "paren", "matchy", "ret", "typed"]
        forms_annot = ["typed", "ret"]
        capture = allow_capture and (r.random() < 0.22 or self.force_capture)
        form = r.choice(forms_annot if (annotate or capture or self.force_annot) else forms_free)
        if rtype is None and form == "ret":
            form = "typed"
        if param == "":
            form = r.choice(["plain", "paren", "matchy"])
        if form == "plain":
            t = "|%s| { %s%s }" % (param, logs, body)
        elif form == "paren":
            t = "(|%s| { %s%s })" % (param, logs, body)
        elif form == "matchy":
            t = "|%s| match 0u8 { 0 => { %s%s } _ => unreachable!() }" % (param, logs, body)
        elif form == "typed":
            t = "|%s: %s| { %s%s }" % (param, ptype, logs, body)
        else:
            t = "|%s: %s| -> %s { %s%s }" % (param, ptype, rtype, logs, body)
        self.spellings.add(form)
        if capture:
            c = self.nid()
            self.spellings.add("block")
            if c % 4 == 0:
                self.spellings.add("labelled_block")
                return "'blk%d: { zc(%d); %s }" % (c, c, t), c
            return "{ zc(%d); %s }" % (c, t), c
        return t, 0

    def val(self, expr):
        """A non-closure operand (evaluated eagerly): `ze(ID, expr)`, sometimes as a block capture."""
        i = self.nid()
        t = "ze(%d, %s)" % (i, expr)
        if self.rng.random() < 0.25 or self.force_capture:
            c = self.nid()
            self.spellings.add("block")
            return "{ zc(%d); %s }" % (c, t), c
        return t, 0

    # ---- transitions -------------------------------------------------------------------------
    def transitions(self, w, last):
        """All members applicable in world `w`. `last`: this is the final action of the branch (operators that
        need a type annotation from the context are only usable there)."""
        sync = self.flavour == "sync"
        T = []

        def add(op, sp, to, operands_fn, tag=None):
            T.append((op, sp, to, operands_fn, tag or op))

        def one(*a, **k):
            return lambda: [self.cb(*a, **k)]

        if w == "O":
            add("map", "|>", "O", one("v", "u32", "&v", "v.wrapping_add(1)", "u32"))
            add("map", "|>", "O", lambda: [("inc::<%d>" % self.nid(), 0)], "map/fnpath")
            add("map", "|>", "O", lambda: [("mk_inc(%d)" % self.nid(), 0)], "map/callexpr")
            add("map", "|>", "OO", one("v", "u32", "&v", "if v > 3 { Some(v) } else { None }", "Option<u32>"))
            add("map", "|>", "OP", one("v", "u32", "&v", "(v, v / 2)", "(u32, u32)"))
            add("and_then", "=>", "O", one("v", "u32", "&v", "if v % 2 == 1 { Some(v.wrapping_mul(2)) } else { None }", "Option<u32>"))
            add("and_then", "=>", "O", lambda: [("some_even::<%d>" % self.nid(), 0)], "and_then/fnpath")
            add("filter", "?>", "O", one("v", "&u32", "v", "*v > 2", "bool"))
            add("filter", "?>", "O", lambda: [("is_big::<%d>" % self.nid(), 0)], "filter/fnpath")
            add("or", "<|", "O", lambda: [self.val(self.rng.choice(["Some(7u32)", "None::<u32>"]))])
            add("or_else", "<=", "O", lambda: [self.cb("", "", None, self.rng.choice(["Some(9u32)", "None::<u32>"]), "Option<u32>", allow_capture=False)])
            if sync:
                add("inspect", "??", "O", one("o", "&Option<u32>", "o", "", None, annotate=True))
            else:
                add("inspect", "??", "O", one("v", "&u32", "v", "", None))
            add("zip", ">^>", "OP", lambda: [self.val(self.rng.choice(["Some(5u32)", "None::<u32>"]))])
            add("dot", "..", "R", lambda: [("ok_or(7u8)", 0)], "dot/ok_or")
            add("dot", ">.", "I", lambda: [("into_iter()", 0)], "dot/into_iter")
            add("dot", "..", "B", lambda: [("is_some()", 0)], "dot/is_some")
            add("dot", ">.", "P", lambda: [("unwrap_or(0)", 0)], "dot/unwrap_or")
            add("then", "->", "O", one("o", "Option<u32>", "&o", "o.map(|x| x / 2)", "Option<u32>", annotate=True))
            add("then", "->", "R", one("o", "Option<u32>", "&o", "o.ok_or(3u8)", "Result<u32, u8>", annotate=True))
            add("then", "->", "P", one("o", "Option<u32>", "&o", "o.unwrap_or(11)", "u32", annotate=True))
        elif w == "OO":
            add("flatten", "^^>", "O", lambda: [])
            add("dot", "..", "B", lambda: [("is_none()", 0)], "dot/is_none")
        elif w == "OP":
            add("unzip", "<->", "T2O", lambda: [], "unzip/option")
            add("map", "|>", "O", one("(a, b)", "(u32, u32)", "&(a, b)", "a.wrapping_add(b)", "u32"))
        elif w == "R":
            add("map", "|>", "R", one("v", "u32", "&v", "v.wrapping_mul(3)", "u32"))
            add("map", "|>", "RR", one("v", "u32", "&v", "if v > 5 { Ok(v) } else { Err(1u8) }", "Result<u32, u8>"))
            add("and_then", "=>", "R", one("v", "u32", "&v", "if v % 2 == 0 { Ok(v / 2) } else { Err(9u8) }", "Result<u32, u8>"))
            add("and_then", "=>", "R", lambda: [("ok_small::<%d>" % self.nid(), 0)], "and_then/fnpath")
            add("or", "<|", "R", lambda: [self.val(self.rng.choice(["Ok::<u32, u8>(7)", "Err::<u32, u8>(6)"]))])
            add("or_else", "<=", "R", one("e", "u8", "&e", "if e > 4 { Ok::<u32, u8>(e as u32) } else { Err(e.wrapping_add(1)) }", "Result<u32, u8>"))
            add("map_err", "!>", "R", one("e", "u8", "&e", "e.wrapping_add(1)", "u8"))
            if sync:
                add("inspect", "??", "R", one("r", "&Result<u32, u8>", "r", "", None, annotate=True))
            else:
                add("inspect", "??", "R", one("v", "&u32", "v", "", None))
            add("dot", "..", "O", lambda: [("ok()", 0)], "dot/ok")
            add("dot", ">.", "I", lambda: [("into_iter()", 0)], "dot/into_iter")
            add("dot", "..", "B", lambda: [("is_ok()", 0)], "dot/is_ok")
            add("then", "->", "O", one("r", "Result<u32, u8>", "&r", "r.ok()", "Option<u32>", annotate=True))
            add("then", "->", "R", one("r", "Result<u32, u8>", "&r", "r.map(|x| x.wrapping_add(1))", "Result<u32, u8>", annotate=True))
        elif w == "RR":
            add("flatten", "^^>", "R", lambda: [], "flatten/result")
            add("dot", "..", "B", lambda: [("is_err()", 0)], "dot/is_err")
        elif w == "I":
            add("map", "|>", "I", one("v", "u32", "&v", "v.wrapping_mul(2)", "u32"))
            add("map", "|>", "I", lambda: [("inc::<%d>" % self.nid(), 0)], "map/fnpath")
            add("map", "|>", "I", lambda: [("mk_inc(%d)" % self.nid(), 0)], "map/callexpr")
            add("map", "|>", "IP", one("v", "u32", "&v", "(v, v % 3)", "(u32, u32)"))
            add("map", "|>", "IO", one("v", "u32", "&v", "if v % 2 == 0 { Some(v) } else { None }", "Option<u32>"))
            add("map", "|>", "IR", one("v", "u32", "&v", "if v % 3 == 0 { Err(v as u8) } else { Ok(v) }", "Result<u32, u8>"))
            add("map", "|>", "II", one("v", "u32", "&v", "vec![v, v.wrapping_add(1)]", "Vec<u32>"))
            add("filter", "?>", "I", one("v", "&u32", "v", "*v % 2 == 1", "bool"))
            add("filter", "?>", "I", lambda: [("mk_pred(%d)" % self.nid(), 0)], "filter/callexpr")
            add("filter_map", "?|>", "I", one("v", "u32", "&v", "if v > 2 { Some(v - 1) } else { None }", "Option<u32>"))
            add("chain", ">@>", "I", lambda: [self.val("vec![10u32, 11].into_iter()")])
            add("enumerate", "|n>", "IE", lambda: [])
            add("zip", ">^>", "IP", lambda: [self.val("vec![20u32, 21, 22].into_iter()")])
            add("collect", "=>[]", "V", lambda: [("Vec<u32>", 0)], "collect/typed")
            add("collect", "=>[]", "V", lambda: [("Vec<_>", 0)], "collect/typed_infer")
            # a collect type that is a bare path (an alias): nothing in it tells a parser where the type ends
            add("collect", "=>[]", "V", lambda: [("VecU", 0)], "collect/alias")
            if last:
                add("collect", "=>[]", "V", lambda: [], "collect/untyped")
                add("partition", "?&!>", "VV", one("v", "&u32", "v", "*v > 3", "bool"))
            add("fold", "^@", "P", lambda: [self.val("1u32"), self.cb2()])
            add("try_fold", "?^@", "O", lambda: [self.val("0u32"), self.cb2(body="if v < 6 { Some(acc.wrapping_add(v)) } else { None }", rtype="Option<u32>")], "try_fold/option")
            add("try_fold", "?^@", "R", lambda: [self.val("2u32"), self.cb2(body="if v != 4 { Ok::<u32, u8>(acc.wrapping_add(v)) } else { Err(4u8) }", rtype="Result<u32, u8>")], "try_fold/result")
            add("find", "?@", "O", one("v", "&u32", "v", "*v > 2", "bool"))
            add("find_map", "?|>@", "O", one("v", "u32", "&v", "if v > 3 { Some(v.wrapping_mul(10)) } else { None }", "Option<u32>"))
            if sync:
                add("inspect", "??", "I", lambda: [("|_: &_| { z0(%d); }" % self.nid(), 0)], "inspect/iter_sync")
            else:
                add("inspect", "??", "I", one("v", "&u32", "v", "", None))
            add("dot", "..", "U", lambda: [("count()", 0)], "dot/count")
            add("dot", ">.", "P", lambda: [("sum::<u32>()", 0)], "dot/sum_turbofish")
            add("dot", "..", "O", lambda: [("max()", 0)], "dot/max")
            add("dot", "..", "I", lambda: [("skip(1)", 0)], "dot/skip")
            add("dot", ">.", "I", lambda: [("take(4)", 0)], "dot/take")
            add("then", "->", "P", lambda: [("it_sum", 0)], "then/fnpath")
            add("then", "->", "V", lambda: [("it_vec", 0)], "then/fnpath")
            add("then", "->", "O", lambda: [("it_first", 0)], "then/fnpath")
            add("then", "->", "I", lambda: [("it_id", 0)], "then/fnpath")
        elif w == "IP":
            if last:
                add("unzip", "<->", "VV", lambda: [], "unzip/untyped")
            add("unzip", "<->", "VV", lambda: [("u32", 0), ("u32", 0), ("Vec<u32>", 0), ("Vec<u32>", 0)], "unzip/typed")
            add("unzip", "<->", "VV", lambda: [("_", 0), ("_", 0), ("Vec<u32>", 0), ("Vec<_>", 0)], "unzip/typed_infer")
            add("map", "|>", "I", one("(a, b)", "(u32, u32)", "&(a, b)", "a.wrapping_add(b)", "u32"))
            add("collect", "=>[]", "VP", lambda: [("Vec<(u32, u32)>", 0)], "collect/pairs")
            add("filter", "?>", "IP", one("p", "&(u32, u32)", "p", "p.0 > p.1", "bool"))
        elif w == "IE":
            add("map", "|>", "I", one("(i, v)", "(usize, u32)", "&(i, v)", "v.wrapping_add(i as u32)", "u32"))
            add("collect", "=>[]", "VE", lambda: [("Vec<(usize, u32)>", 0)], "collect/enumerated")
        elif w in ("IO", "IR", "II"):
            add("flatten", "^^>", "I", lambda: [], "flatten/iter")
            add("dot", "..", "U", lambda: [("count()", 0)], "dot/count")
            if w == "IO":
                # collecting into Option<Vec<_>> / Result<Vec<_>, _>: the collect type is followed by `<|`, `<=`, `!>`, `<<<`
                add("collect", "=>[]", "OV", lambda: [("OVec", 0)], "collect/alias_option")
                add("collect", "=>[]", "OV", lambda: [("Option<Vec<u32>>", 0)], "collect/option")
            if w == "IR":
                add("collect", "=>[]", "RV", lambda: [("RVec", 0)], "collect/alias_result")
                add("collect", "=>[]", "RV", lambda: [("Result<Vec<_>, u8>", 0)], "collect/result")
        elif w == "OV":
            add("or", "<|", "OV", lambda: [self.val(self.rng.choice(["Some(vec![7u32])", "None::<Vec<u32>>"]))], "or/optvec")
            add("or_else", "<=", "OV", lambda: [self.cb("", "", None, self.rng.choice(["Some(vec![9u32, 8])", "None::<Vec<u32>>"]), "Option<Vec<u32>>", allow_capture=False)], "or_else/optvec")
            add("map", "|>", "O", one("v", "Vec<u32>", "&v", "v.len() as u32", "u32"), "map/optvec")
            add("dot", "..", "B", lambda: [("is_some()", 0)], "dot/is_some")
            add("dot", ">.", "V", lambda: [("unwrap_or_default()", 0)], "dot/unwrap_or_default")
        elif w == "RV":
            add("map_err", "!>", "RV", one("e", "u8", "&e", "e.wrapping_add(1)", "u8"), "map_err/resvec")
            add("or", "<|", "RV", lambda: [self.val(self.rng.choice(["Ok::<Vec<u32>, u8>(vec![7])", "Err::<Vec<u32>, u8>(6)"]))], "or/resvec")
            add("or_else", "<=", "RV", one("e", "u8", "&e", "if e > 4 { Ok::<Vec<u32>, u8>(vec![e as u32]) } else { Err(e.wrapping_add(1)) }", "Result<Vec<u32>, u8>"), "or_else/resvec")
            add("map", "|>", "R", one("v", "Vec<u32>", "&v", "v.len() as u32", "u32"), "map/resvec")
            add("dot", "..", "OV", lambda: [("ok()", 0)], "dot/ok")
        elif w == "P":
            add("then", "->", "O", one("p", "u32", "&p", "if p > 0 { Some(p) } else { None }", "Option<u32>", annotate=True))
            add("then", "->", "R", one("p", "u32", "&p", "if p < 10 { Ok::<u32, u8>(p) } else { Err(8u8) }", "Result<u32, u8>", annotate=True))
            add("then", "->", "I", one("p", "u32", "&p", "vec![p, p / 2, 3].into_iter()", None, annotate=True))
            add("then", "->", "P", one("p", "u32", "&p", "p ^ 5", "u32", annotate=True))
            # the callee of `->` written as a call expression: evaluated where `(expr)(value)` stands — per call of an
            # enclosing wrapper closure, not once when the chain is built
            add("then", "->", "P", lambda: [("mk_inc(%d)" % self.nid(), 0)], "then/callexpr")
            add("then", "->", "O", lambda: [("mk_p2o(%d)" % self.nid(), 0)], "then/callexpr_option")
            add("dot", "..", "O", lambda: [("checked_add(1)", 0)], "dot/checked_add")
            add("dot", ">.", "P", lambda: [("wrapping_pow(2)", 0)], "dot/pow")
            add("dot", "..", "B", lambda: [("is_power_of_two()", 0)], "dot/is_pow2")
            if sync:
                add("inspect", "??", "P", one("p", "&u32", "p", "", None, annotate=True))
        elif w == "V":
            add("dot", "..", "U", lambda: [("len()", 0)], "dot/len")
            add("dot", ">.", "I", lambda: [("into_iter()", 0)], "dot/into_iter")
            add("then", "->", "P", one("v", "Vec<u32>", "&v", "v.iter().fold(0u32, |a, b| a.wrapping_add(*b))", "u32", annotate=True))
        elif w == "B":
            add("dot", "..", "O", lambda: [("then(|| 3u32)", 0)], "dot/then_closure")
            add("then", "->", "P", one("b", "bool", "&b", "if b { 1u32 } else { 0 }", "u32", annotate=True))
        elif w == "U":
            add("then", "->", "P", one("u", "usize", "&u", "u as u32", "u32", annotate=True))
        elif w == "PR":
            add("then", "->", "B", one("r", "&u32", "r", "*r > 1", "bool", annotate=True))
            add("then", "->", "B", lambda: [("mk_pred(%d)" % self.nid(), 0)], "then/callexpr_pred")
            add("dot", "..", "P", lambda: [("clone()", 0)], "dot/clone")
        elif w == "E":
            add("then", "->", "R", one("e", "u8", "&e", "if e > 5 { Ok::<u32, u8>(e as u32) } else { Err(e) }", "Result<u32, u8>", annotate=True))
            add("then", "->", "E", one("e", "u8", "&e", "e.wrapping_mul(2)", "u8", annotate=True))
            add("then", "->", "R", lambda: [("mk_e2r(%d)" % self.nid(), 0)], "then/callexpr_result")
            add("then", "->", "E", lambda: [("mk_e2e(%d)" % self.nid(), 0)], "then/callexpr_err")
            add("dot", "..", "E", lambda: [("wrapping_add(3)", 0)], "dot/wrapping_add_u8")
        elif w == "PP":
            add("then", "->", "P", one("p", "(u32, u32)", "&p", "p.0 ^ p.1", "u32", annotate=True))
        elif w in ("OREF", "RREF"):
            ty = RUST[w]
            add("then", "->", "N", one("o", ty, "o", "", None, annotate=True))
        # ---------------- async worlds (receivers are futures / streams) ----------------
        if not sync:
            R32 = "futures::future::Ready<u32>"
            if w == "P":
                add("then", "->", "FP", lambda: [(RDY, 0)], "then/ready")
                add("then", "->", "TF", one("p", "u32", "&p", RDY + "(if p < 10 { Ok::<u32, u8>(p) } else { Err(8u8) })", "futures::future::Ready<Result<u32, u8>>", annotate=True))
                add("then", "->", "S", one("p", "u32", "&p", "futures::stream::iter(vec![p, p / 2, 3])", None, annotate=True))
                add("then", "->", "FO2", one("p", "u32", "&p", RDY + "(if p > 2 { Some(p - 1) } else { None })", "futures::future::Ready<Option<u32>>", annotate=True), "then/ready_option")
            elif w == "PR":
                add("then", "->", "FB", one("r", "&u32", "r", RDY + "(*r > 1)", "futures::future::Ready<bool>", annotate=True))
                add("then", "->", "N", one("r", "&u32", "r", "", None, annotate=True))
            elif w == "E":
                add("then", "->", "TF", one("e", "u8", "&e", RDY + "(if e > 5 { Ok::<u32, u8>(e as u32) } else { Err(e) })", "futures::future::Ready<Result<u32, u8>>", annotate=True))
            elif w == "FP":
                add("map", "|>", "FP", one("v", "u32", "&v", "v.wrapping_add(1)", "u32"), "fut/map")
                add("map", "|>", "FP", lambda: [("inc::<%d>" % self.nid(), 0)], "fut/map_fnpath")
                add("map", "|>", "FO", one("v", "u32", "&v", "if v > 3 { Some(v) } else { None }", "Option<u32>"), "fut/map")
                add("map", "|>", "FFP", one("v", "u32", "&v", RDY + "(v.wrapping_mul(2))", R32), "fut/map_to_future")
                add("map", "|>", "FV", one("v", "u32", "&v", "vec![v, v.wrapping_add(1)]", "Vec<u32>"), "fut/map")
                add("inspect", "??", "FP", one("v", "&u32", "v", "", None), "fut/inspect")
                add("dot", "..", "FP", lambda: [("boxed()", 0)], "fut/dot_boxed")
                add("dot", ">.", "S", lambda: [("into_stream()", 0)], "fut/dot_into_stream")
                add("then", "->", "FP", lambda: [("fut_inc::<%d, _>" % self.nid(), 0)], "fut/then_fnpath")
            elif w == "FFP":
                add("flatten", "^^>", "FP", lambda: [], "fut/flatten")
            elif w == "FO":
                add("map", "|>", "FP", one("o", "Option<u32>", "&o", "o.unwrap_or(0)", "u32"), "fut/map")
                add("inspect", "??", "FO", one("o", "&Option<u32>", "o", "", None), "fut/inspect")
            elif w == "TF":
                add("map", "|>", "TF", one("r", "Result<u32, u8>", "&r", "r.map(|x| x.wrapping_add(1))", "Result<u32, u8>"), "tryfut/map")
                add("and_then", "=>", "TF", one("v", "u32", "&v", RDY + "(if v % 2 == 0 { Ok::<u32, u8>(v / 2) } else { Err(9u8) })", "futures::future::Ready<Result<u32, u8>>"), "tryfut/and_then")
                add("or_else", "<=", "TF", one("e", "u8", "&e", RDY + "(if e > 4 { Ok::<u32, u8>(e as u32) } else { Err(e.wrapping_add(1)) })", "futures::future::Ready<Result<u32, u8>>"), "tryfut/or_else")
                add("map_err", "!>", "TF", one("e", "u8", "&e", "e.wrapping_add(1)", "u8"), "tryfut/map_err")
                add("inspect", "??", "TF", one("r", "&Result<u32, u8>", "r", "", None), "tryfut/inspect")
                add("dot", "..", "FP", lambda: [("unwrap_or_else(|e| e as u32)", 0)], "tryfut/dot_unwrap_or_else")
                add("dot", ">.", "SR", lambda: [("into_stream()", 0)], "tryfut/dot_into_stream")
                add("and_then", "=>", "TTF", one("v", "u32", "&v", RDY + "(Ok::<futures::future::Ready<Result<u32, u8>>, u8>(" + RDY + "(if v % 2 == 0 { Ok::<u32, u8>(v / 2) } else { Err(9u8) })))", "futures::future::Ready<Result<futures::future::Ready<Result<u32, u8>>, u8>>"), "tryfut/and_then_nested")
            elif w == "TTF":
                add("and_then", "=>", "TF", one("f", "futures::future::Ready<Result<u32, u8>>", None, "f", "futures::future::Ready<Result<u32, u8>>"), "tryfut/and_then_identity")
            elif w == "SFO":
                add("filter_map", "?|>", "S", one("f", "futures::future::Ready<Option<u32>>", None, "f", "futures::future::Ready<Option<u32>>"), "stream/filter_map_identity")
            elif w == "FV":
                add("map", "|>", "FU", one("v", "Vec<u32>", "&v", "v.len()", "usize"), "fut/map")
                add("map", "|>", "FP", one("v", "Vec<u32>", "&v", "v.iter().fold(0u32, |a, b| a.wrapping_add(*b))", "u32"), "fut/map")
            elif w == "FVV":
                add("map", "|>", "FU", one("(a, b)", "(Vec<u32>, Vec<u32>)", "&(&a, &b)", "a.len() + b.len() * 10", "usize"), "fut/map")
            elif w == "FU":
                add("map", "|>", "FP", one("u", "usize", "&u", "u as u32", "u32"), "fut/map")
            elif w == "S":
                add("map", "|>", "S", one("v", "u32", "&v", "v.wrapping_mul(2)", "u32"), "stream/map")
                add("map", "|>", "S", lambda: [("mk_inc(%d)" % self.nid(), 0)], "stream/map_callexpr")
                add("map", "|>", "SP", one("v", "u32", "&v", "(v, v % 3)", "(u32, u32)"), "stream/map")
                add("map", "|>", "SR", one("v", "u32", "&v", "if v % 3 == 0 { Err(v as u8) } else { Ok::<u32, u8>(v) }", "Result<u32, u8>"), "stream/map")
                add("map", "|>", "SS", one("v", "u32", "&v", "futures::stream::iter(vec![v, v.wrapping_add(1)])", None), "stream/map_to_stream")
                add("map", "|>", "SFO", one("v", "u32", "&v", RDY + "(if v > 2 { Some(v - 1) } else { None })", "futures::future::Ready<Option<u32>>"), "stream/map_to_option_future")
                add("filter", "?>", "S", one("v", "&u32", "v", RDY + "(*v % 2 == 1)", "futures::future::Ready<bool>"), "stream/filter")
                add("filter_map", "?|>", "S", one("v", "u32", "&v", RDY + "(if v > 2 { Some(v - 1) } else { None })", "futures::future::Ready<Option<u32>>"), "stream/filter_map")
                add("chain", ">@>", "S", lambda: [self.val("futures::stream::iter(vec![10u32, 11])")], "stream/chain")
                add("enumerate", "|n>", "SE", lambda: [], "stream/enumerate")
                add("zip", ">^>", "SP", lambda: [self.val("futures::stream::iter(vec![20u32, 21, 22])")], "stream/zip")
                add("collect", "=>[]", "FV", lambda: [("Vec<u32>", 0)], "stream/collect_typed")
                add("collect", "=>[]", "FV", lambda: [("Vec<_>", 0)], "stream/collect_typed_infer")
                if last:
                    add("collect", "=>[]", "FV", lambda: [], "stream/collect_untyped")
                add("fold", "^@", "FP", lambda: [self.val("1u32"), self.cb2(body=RDY + "(acc.wrapping_add(v))", rtype=R32)], "stream/fold")
                add("inspect", "??", "S", one("v", "&u32", "v", "", None), "stream/inspect")
                add("dot", "..", "S", lambda: [("skip(1)", 0)], "stream/dot_skip")
                add("dot", ">.", "S", lambda: [("take(4)", 0)], "stream/dot_take")
                add("dot", "..", "FU", lambda: [("count()", 0)], "stream/dot_count")
            elif w == "SP":
                if last:
                    add("unzip", "<->", "FVV", lambda: [], "stream/unzip_untyped")
                add("unzip", "<->", "FVV", lambda: [("u32", 0), ("u32", 0), ("Vec<u32>", 0), ("Vec<u32>", 0)], "stream/unzip_typed")
                add("map", "|>", "S", one("(a, b)", "(u32, u32)", "&(a, b)", "a.wrapping_add(b)", "u32"), "stream/map")
            elif w == "SE":
                add("map", "|>", "S", one("(i, v)", "(usize, u32)", "&(i, v)", "v.wrapping_add(i as u32)", "u32"), "stream/map")
            elif w == "SS":
                add("flatten", "^^>", "S", lambda: [], "stream/flatten")
            elif w == "SR":
                add("try_fold", "?^@", "TF", lambda: [self.val("2u32"), self.cb2(body=RDY + "(if v != 4 { Ok::<u32, u8>(acc.wrapping_add(v)) } else { Err(4u8) })", rtype="futures::future::Ready<Result<u32, u8>>")], "stream/try_fold")
                add("collect", "=>[]", "FVR", lambda: [("Vec<Result<u32, u8>>", 0)], "stream/collect_results")
            elif w == "FVR":
                add("map", "|>", "FU", one("v", "Vec<Result<u32, u8>>", "&v", "v.iter().filter(|r| r.is_ok()).count()", "usize"), "fut/map")
        return T

    def cb2(self, body="acc.wrapping_add(v)", rtype="u32"):
        """Two-parameter closure for fold / try_fold."""
        i = self.nid()
        r = self.rng
        capture = r.random() < 0.25 or self.force_capture
        if capture or r.random() < 0.5 or self.force_annot:
            t = "|acc: u32, v: u32| -> %s { z(%d, &(acc, v)); %s }" % (rtype, i, body)
        else:
            t = "|acc, v| { z(%d, &(acc, v)); %s }" % (i, body)
        if capture:
            c = self.nid()
            self.spellings.add("block")
            return "{ zc(%d); %s }" % (c, t), c
        return t, 0

    # ---- wrappers ----------------------------------------------------------------------------
    WRAPS = {
        # (world, op): (spelling, method, inner start world, {inner end world: outer result world})
        ("O", "map"): ("|>", "P", {"P": "O", "O": "OO"}),
        ("O", "and_then"): ("=>", "P", {"O": "O"}),
        ("O", "filter"): ("?>", "PR", {"B": "O"}),
        ("R", "map"): ("|>", "P", {"P": "R", "R": "RR"}),
        ("R", "and_then"): ("=>", "P", {"R": "R"}),
        ("R", "or_else"): ("<=", "E", {"R": "R"}),
        ("R", "map_err"): ("!>", "E", {"E": "R"}),
        ("I", "map"): ("|>", "P", {"P": "I", "O": "IO"}),
        ("I", "filter"): ("?>", "PR", {"B": "I"}),
        ("I", "filter_map"): ("?|>", "P", {"O": "I"}),
        ("I", "find"): ("?@", "PR", {"B": "O"}),
        ("I", "find_map"): ("?|>@", "P", {"O": "O"}),
        ("IP", "map"): ("|>", "PP", {"P": "I"}),
        # wrappers whose inner chain may be empty although the operator is not `map`: `.and_then(|v| v)`, `.filter_map(|v| v)`
        ("OO", "and_then"): ("=>", "O", {"O": "O"}),
        ("RR", "and_then"): ("=>", "R", {"R": "R"}),
        ("IO", "filter_map"): ("?|>", "O", {"O": "I"}),
    }

    AWRAPS = {
        ("FP", "map"): ("|>", "P", {"P": "FP", "O": "FO"}), ("FP", "inspect"): ("??", "PR", {"N": "FP"}),
        ("TF", "and_then"): ("=>", "P", {"TF": "TF"}), ("TF", "or_else"): ("<=", "E", {"TF": "TF"}), ("TF", "map_err"): ("!>", "E", {"E": "TF"}),
        ("TF", "inspect"): ("??", "RREF", {"N": "TF"}),
        ("S", "map"): ("|>", "P", {"P": "S"}), ("S", "filter"): ("?>", "PR", {"FB": "S"}), ("S", "filter_map"): ("?|>", "P", {"FO2": "S"}),
        ("S", "inspect"): ("??", "PR", {"N": "S"}),
        # possibly empty `=> >>>` / `?|> >>>` on a try-future of try-futures / a stream of option-futures:
        # TryFutureExt::and_then(|v| v) and StreamExt::filter_map(|v| v) are not `flatten`
        ("TTF", "and_then"): ("=>", "TF", {"TF": "TF"}),
        ("SFO", "filter_map"): ("?|>", "FO2", {"FO2": "S"}),
    }

    def empty_wrapper(self, w, op, explicit):
        """The wrapper (w, op) with an empty inner chain (`op >>> <<<`, or left open), if that is typeable."""
        ent = self.WRAPS.get((w, op)) or (self.AWRAPS.get((w, op)) if self.flavour == "async" else None)
        if ent is None or ent[1] not in ent[2]:
            return None
        return Member(op, ent[0], [], ent[2][ent[1]], inner=[], explicit_close=explicit, tag="w:empty:" + op)

    def lone_then_wrapper(self, w, op, explicit):
        """The wrapper (w, op) whose inner chain is a single `->` with a call-expression callee."""
        ent = self.WRAPS.get((w, op)) or (self.AWRAPS.get((w, op)) if self.flavour == "async" else None)
        if ent is None:
            return None
        cands = [t for t in self.transitions(ent[1], False) if t[4].startswith("then/callexpr") and t[2] in ent[2]]
        if not cands:
            return None
        t = self.rng.choice(cands)
        return Member(op, ent[0], [], ent[2][t[2]], inner=[self.mk(t)], explicit_close=explicit, tag="w:lone_then:" + op)

    def lone_inspect_wrapper(self, w, op, explicit):
        """The wrapper (w, op) whose inner chain starts with a `??` on the wrapped value (followed by whatever leads to an
        admissible inner end world)."""
        ent = self.WRAPS.get((w, op)) or (self.AWRAPS.get((w, op)) if self.flavour == "async" else None)
        if ent is None:
            return None
        cands = [t for t in self.transitions(ent[1], False) if t[0] == "inspect" and t[2] == ent[1]]
        if not cands:
            return None
        first = self.mk(self.rng.choice(cands))
        target = self.rng.choice(list(ent[2].keys()))
        rest = self.finish(ent[1], target) if ent[1] != target else []
        if rest is None:
            return None
        return Member(op, ent[0], [], ent[2][target], inner=[first] + rest, explicit_close=explicit, tag="w:inspect_inside:" + op)

    def wrapper(self, w, depth, last):
        """Returns a wrapper Member applicable in world w (or None)."""
        r = self.rng
        cands = [(k, v) for k, v in self.WRAPS.items() if k[0] == w]
        if self.flavour == "sync":
            if w == "O":
                cands.append((("O", "inspect"), ("??", "OREF", {"N": "O"})))
            if w == "R":
                cands.append((("R", "inspect"), ("??", "RREF", {"N": "R"})))
        if w == "I" and last:
            cands.append((("I", "partition"), ("?&!>", "PR", {"B": "VV"})))
        if self.flavour == "async":
            cands += [(k, v) for k, v in self.AWRAPS.items() if k[0] == w]
        if not cands:
            return None
        (_, op), (sp, start, ends) = r.choice(cands)
        target_in = r.choice(list(ends.keys()))
        inner = self.walk(start, r.randint(0, 3), depth + 1, target=target_in, inner=True)
        if inner is None:
            return None
        m = Member(op, sp, [], ends[target_in], inner=inner, explicit_close=r.random() < 0.6, tag="w:" + op)
        return m

    # ---- random walks --------------------------------------------------------------------------
    def finish(self, w, target=None):
        """Members that lead from w to `target` (or to any terminal world)."""
        if target is not None:
            if w == target:
                return []
            path = self.bfs(w, lambda x: x == target)
        else:
            if w in TERMINAL or w in FUT_OUT:
                return []
            path = self.bfs(w, lambda x: x in TERMINAL or x in FUT_OUT)
        return path

    def bfs(self, w, goal):
        seen = {w}
        q = deque([(w, [])])
        while q:
            cur, path = q.popleft()
            if goal(cur) and path:
                return [self.mk(t) for t in path]
            if goal(cur) and not path:
                return []
            if len(path) >= 4:
                continue
            for t in self.transitions_static(cur):
                if t[2] not in seen:
                    seen.add(t[2])
                    q.append((t[2], path + [t]))
        return None

    def transitions_static(self, w):
        # transitions() draws ids while building operand lambdas lazily, so listing is side-effect free
        return self.transitions(w, False)

    def mk(self, t, deferred=False):
        op, sp, to, operands_fn, tag = t
        ops = operands_fn()
        return Member(op, sp, [o[0] for o in ops], to, deferred=deferred, caps=[o[1] for o in ops], tag=tag)

    def walk(self, w, length, depth=0, target=None, inner=False, allow_defer=False, defer_worlds=None):
        ms = []
        cur = w
        for i in range(length):
            last = (i == length - 1) and target is None and not inner
            deferred = allow_defer and ms != [] and self.rng.random() < 0.22 and (defer_worlds is None or cur in defer_worlds)
            if depth < 3 and self.rng.random() < 0.18:
                m = self.wrapper(cur, depth, last)
                if m is not None:
                    m.deferred = deferred
                    ms.append(m)
                    cur = m.to
                    continue
            ts = self.transitions(cur, last)
            if not ts:
                break
            t = self.rng.choice(ts)
            ms.append(self.mk(t, deferred))
            cur = t[2]
        fin = self.finish(cur, target)
        if fin is None:
            return None
        ms += fin
        return ms


def end_world(ms, start):
    return ms[-1].to if ms else start


# ----------------------------------------------------------------------------------------------
# rendering


def render_dsl(ms, top=True, force_close=False, open_tail=False):
    """force_close: something is appended after the chain, so a trailing wrapper must be closed explicitly.
    open_tail: this (inner) chain ends where its enclosing wrapper is itself left open up to the end of the step, so a
    wrapper that ends it may be left open as well (several wrappers closed implicitly at once)."""
    out = []
    for i, m in enumerate(ms):
        tilde = "~" if m.deferred else ""
        if m.inner is not None:
            is_last_in_step = (i == len(ms) - 1) or ms[i + 1].deferred
            really_last = i == len(ms) - 1
            leave_open = (top or open_tail) and is_last_in_step and not m.explicit_close and not (force_close and really_last)
            inner = render_dsl(m.inner, False, False, leave_open)
            out.append("%s%s >>> %s%s" % (tilde, m.spelling, inner, "" if leave_open else " <<<"))
        else:
            s = tilde + m.spelling
            if m.operands:
                s += " " + ", ".join(m.operands)
            out.append(s)
    return " ".join(x for x in out if x)


class RefCtx:
    def __init__(self, flavour):
        self.flavour = flavour
        self.lets = []   # hoisted captures of the current step
        self.n = 0


def hoist(ctx, operand, cap):
    """Block operands are evaluated once, before their step: the reference binds them to a `let` in front."""
    if cap:
        ctx.n += 1
        name = "__c%d" % ctx.n
        ctx.lets.append("let %s = %s;" % (name, operand))
        return name
    return operand


def render_ref(ms, recv, ctx):
    """Applies members to the receiver expression text `recv` per the README table."""
    cur = recv
    for m in ms:
        if m.inner is not None:
            body = render_ref(m.inner, "__v", ctx)
            clo = "|__v| %s" % body
            if m.op == "inspect" and ctx.flavour == "sync":  # sync inspect wrapper: callback sees a reference, value passes through
                cur = "{ let __x = %s; (%s)(&__x); __x }" % (cur, clo)
            else:
                cur = "%s.%s(%s)" % (cur, m.op, clo)
            continue
        ops = [hoist(ctx, o, c) for o, c in zip(m.operands, m.caps)]
        if m.op == "then":
            cur = "(%s)(%s)" % (ops[0], cur)
        elif m.op == "inspect":
            if ctx.flavour == "sync":
                cur = "{ let __x = %s; (%s)(&__x); __x }" % (cur, ops[0])
            else:
                cur = "%s.inspect(%s)" % (cur, ops[0])
        elif m.op == "dot":
            cur = "%s.%s" % (cur, ops[0])
        elif m.op == "collect":
            cur = "%s.collect%s()" % (cur, "::<%s>" % ops[0] if ops else "")
        elif m.op == "unzip":
            cur = "%s.unzip%s()" % (cur, "::<%s>" % ", ".join(ops) if ops else "")
        elif m.op in ("flatten", "enumerate"):
            cur = "%s.%s()" % (cur, m.op)
        else:
            cur = "%s.%s(%s)" % (cur, m.op, ", ".join(ops))
    return cur


def split_steps(ms):
    steps = [[]]
    for m in ms:
        if m.deferred:
            steps.append([])
        steps[-1].append(m)
    return steps


class Prog:
    def __init__(self):
        self.id = 0
        self.kind = "join"
        self.branches = []  # list of (source text, source world, members, (lo, hi))
        self.srcs = []
        self.tags = set()
        self.max_id = 0
        self.final_annot = None


SRC = {"O": ("so", 3), "R": ("sr", 3), "I": ("si", 4), "P": ("sp", 3), "FP": ("sf", 3), "TF": ("stf", 3), "S": ("ss", 4)}


def gen_prog(pid, rng, kind, length, force=None):
    """force: optional (world, transition tag) that must appear."""
    flavour = "async" if kind in ASYNC_KINDS else "sync"
    is_try = kind.startswith("try_")
    spawn = "spawn" in kind
    p = Prog()
    p.id = pid
    p.kind = kind
    g = G(rng, flavour)
    # values crossing a thread/task boundary inside a closure must not borrow hoisted locals:
    # (same limitation as for the plain nested-closure rendering) -> no captures inside wrappers there
    nbranches = 1 if not spawn else 2
    if rng.random() < 0.25:
        nbranches += 1
    try_family = rng.choice(["O", "R"]) if is_try else None
    for b in range(nbranches):
        lo = g.next_id
        if is_try and flavour == "sync":
            start = try_family
        elif flavour == "async" and rng.random() < 0.6:
            start = rng.choice(["FP", "TF", "S", "S"])
        else:
            start = rng.choice(["O", "R", "I", "I", "P"])
        fn, nshapes = SRC[start]
        sid = g.nid()
        src = "%s(%d)" % (fn, sid)
        src_cap = 0
        if start == "P" and rng.random() < 0.5:
            # an initial value that binds weaker than a method call: unary, binary, cast, deref of a reference
            if rng.random() < 0.25:
                # ... also when the operand of the prefix operator is a literal
                src = rng.choice(["!%du32", "-%di64 as u32", "!!%du32", "*&%du32"]) % rng.randint(1, 200)
                p.tags.add("sp:low_precedence_initial_literal")
            else:
                src = rng.choice(["!%s", "%s ^ 3", "%s as u32", "*&%s", "%s + 1", "%s >> 1", "*&mut %s", "%s as u64 as u32", "!!%s"]) % src
            p.tags.add("sp:low_precedence_initial")
        elif rng.random() < 0.15:
            src_cap = g.nid()
            src = "{ zc(%d); %s }" % (src_cap, src)
        p.srcs.append((sid, nshapes))
        sid_cap_pos = len(p.branches)
        L = length if b == 0 else rng.randint(0, 3)
        target = None
        # multi-step try semantics (abort after a failed step) are the probe corpus' subject (C05/C06);
        # zoo chains under try macros are single-step
        # (the sequential / thread try macros are multi-step too: the reference aborts after a step in which an active
        # branch ended None / Err, see render_prog; the async try macros stay single-step here)
        allow_defer = not (is_try and flavour == "async")
        defer_worlds = None
        if flavour == "async":
            # a step of an async macro must end in a future: `~` only where the value is one
            defer_worlds = set(FUT_OUT)
        if is_try and flavour == "sync":
            target = try_family
            defer_worlds = {try_family}
        ms = None
        for _ in range(20):
            ms = g.walk(start, L, 0, target=target, allow_defer=allow_defer, defer_worlds=defer_worlds)
            if ms is not None:
                break
        if ms is None:
            ms = []
        if src_cap and ms and ms[0].op in ("find", "find_map", "try_fold") :
            # a hoisted initial value is bound by an immutable `let`; `&mut self` methods cannot be applied to it
            # (neither in the macro nor in the documented hoisting semantics written out by hand)
            src = "%s(%d)" % (fn, sid)
            src_cap = 0
        p.branches.append((src, src_cap, start, ms, (lo, g.next_id)))
        # fix up range end after generation
        p.branches[-1] = (src, src_cap, start, ms, (lo, g.next_id))
    p.max_id = g.next_id + 1
    if is_try and flavour == "async":
        # `try_join!` stops polling at the first failed branch: only the last branch may be a failing TryFuture,
        # otherwise later branches legitimately never run and the sequential reference would over-demand
        finals = [end_world(b[3], b[2]) for b in p.branches]
        if any(f == "TF" for f in finals[:-1]):
            order = [i for i, f in enumerate(finals) if f != "TF"] + [i for i, f in enumerate(finals) if f == "TF"]
            if sum(1 for f in finals if f == "TF") > 1:
                return None
            # branch ranges are by id, so reordering branches keeps the per-branch trace mapping valid
            p.branches = [p.branches[i] for i in order]
    for (_, _, _, ms, _) in p.branches:
        def tagwalk(ms, inside):
            for m in ms:
                p.tags.add("op:" + m.tag)
                if m.inner is not None:
                    p.tags.add("wrap")
                    p.tags.add("w:%s:%s" % (m.op, "explicit" if m.explicit_close else "implicit"))
                    tagwalk(m.inner, True)
                if any(m.caps):
                    p.tags.add("cap")
                    if inside:
                        p.tags.add("cap_in_wrap")
        tagwalk(ms, False)
    if any(b[1] for b in p.branches):
        p.tags.add("cap")
    for s in g.spellings:
        p.tags.add("sp:" + s)
    depths = [1 + sum(1 for m in b[3] if m.deferred) for b in p.branches]
    if len(depths) >= 2 and len(set(depths)) == 1:
        p.tags.add("eqdepth")
    return p


def needs_annotation(ms):
    """Does the last action rely on the context for its type (untyped collect / partition / untyped unzip)?"""
    if not ms:
        return False
    m = ms[-1]
    return (m.op == "collect" and not m.operands) or m.op == "partition" or (m.op == "unzip" and not m.operands and m.to in ("VV", "FVV"))


def noalloc_transform(t):
    """Allocation-free spelling of the same chains: stack `Bag`s instead of `Vec`s, arrays instead of `vec!`,
    an array-backed iterator source."""
    import re
    t = re.sub(r"vec!\[([^\]]*)\](?!\.into_iter)", r"[\1].into_iter().collect::<Bag<u32>>()", t)
    t = re.sub(r"vec!\[([^\]]*)\]", r"[\1]", t)
    t = t.replace("VecU", "BagU").replace("OVec", "OBag").replace("RVec", "RBag").replace("Vec<_>, u8>", "Bag<_>, u8>")
    t = t.replace("Vec<u32>", "Bag<u32>").replace("Vec<_>", "Bag<_>").replace("Vec<(u32, u32)>", "Bag<(u32, u32)>").replace("Vec<(usize, u32)>", "Bag<(usize, u32)>")
    t = t.replace("si(", "sia(").replace("it_vec", "it_bag")
    return t


def call_name(pid, kind):
    """Every seventh invocation names the macro by path instead of relying on the glob import."""
    return "::join::" + kind if pid % 7 == 4 else kind


def forwarded(pid, kind, dsl):
    """Every third invocation (of those that are not named by path) is written through a local macro_rules that forwards all
    of its tokens: the macro's call site is then inside that macro's expansion while every user token keeps the caller's
    hygiene context."""
    if pid % 3 == 1 and pid % 7 != 4:
        return "{ macro_rules! __fwd { ($($t:tt)*) => { %s! { $($t)* } } } __fwd!(%s) }" % (kind, dsl)
    return None


def in_context(pid, stmt):
    """Places the statements that evaluate the macro inside a generic function, a closure, a method, or leaves them in a
    plain function body: the expansion must not depend on the item it stands in."""
    k = pid % 7
    if k == 1:
        return "fn __g<T: Default>() -> String { let _t = T::default(); %s } __g::<u8>()" % stmt
    if k == 2:
        return "let __c = || -> String { %s }; __c()" % stmt
    if k == 3:
        return "struct __S; impl __S { fn m(&self) -> String { %s } } __S.m()" % stmt
    if k == 6:
        return "trait __T { fn m(&self) -> String { %s } } struct __S; impl __T for __S {} __S.m()" % stmt
    return stmt


class LiteralTwin:
    """A twin whose two sides are written out by its generator (not rendered from a walk)."""
    def __init__(self, kind, tags, mk):
        self.kind, self.tags, self.mk, self.id = kind, set(tags), mk, -1


def wrapper_capture_twins():
    """C02: `X >>> inner <<<` is `.x(|v| v inner)` — an ordinary closure. Operands inside a wrapper capture the caller's locals
    the way the hand-nested closure does: a Copy counter bumped inside a wrapper is the caller's counter, a move-only local
    read inside one wrapper can be read again in a later wrapper and after the macro. Sequential macros, wrapper depth 1-2,
    both wrapper operators at every level, a second wrapper after the first one was closed."""
    import itertools
    out = []
    for kind in ("join", "try_join"):
        for depth in (1, 2):
            for wraps in itertools.product(("|>", "=>"), repeat=depth):
                for second in (False, True):
                    src = "5u32"
                    for _ in range(depth + 1):
                        src = "Some(%s)" % src
                    user = "|> |x| { hits += 1; z(1, &x); x + tag.0 }"
                    dsl = src + " " + " ".join("%s >>>" % w for w in wraps) + " " + user + " <<<" * depth
                    ref = "|x| { hits += 1; z(1, &x); x + tag.0 }"
                    ref = "v.map(%s)" % ref
                    for w in reversed(wraps[1:]):
                        ref = "v.%s(|v| %s)" % ("map" if w == "|>" else "and_then", ref)
                    ref = "%s.%s(|v| %s)" % (src, "map" if wraps[0] == "|>" else "and_then", ref)
                    if second:
                        # the outer value again, then a second wrapper that reads what the first one wrote
                        dsl += " |> |o| { hits += 100; o } |> >>> -> |i| { z(2, &hits); (i, hits, tag.0) } <<<"
                        ref = "%s.map(|o| { hits += 100; o }).map(|v| (|i| { z(2, &hits); (i, hits, tag.0) })(v))" % ref
                    pre = "struct Tag(u32); let tag = Tag(3); let mut hits = 0u32;"
                    post = "{ let Tag(t) = tag; dbg((__res, hits, t)) }"

                    def mk(pid, kind=kind, dsl=dsl, ref=ref, pre=pre, post=post, depth=depth, second=second):
                        m = "pub fn m_%d() -> String { %s let __res = %s! { %s }; %s }" % (pid, pre, kind, dsl, post)
                        r = "pub fn r_%d() -> String { %s let __res = %s; %s }" % (pid, pre, ref, post)
                        ent = "Twin { id: %d, kind: %s, m: m_%d, r: r_%d, srcs: &[], branches: &[(1, 3)], tags: %s, text: %s, reference: %s, max_id: 4 }" % (
                            pid, rs(kind), pid, pid, rs("wrap,w:caller_locals_inside_wrapper:depth%d%s" % (depth, "_then_second_wrapper" if second else "")), rs(dsl), rs(ref))
                        return m + "\n" + r, ent
                    out.append(LiteralTwin(kind, ["wrap"], mk))
    return out


def fragment_twins():
    """Pieces of an invocation that reach the macro as `$e:expr` fragments of a caller's macro_rules (None-delimited groups, which
    the compiler does not treat as parentheses in macro output): a fragment that binds weaker than a method call must keep its
    grouping — as an initial value (`$e ..pow(2)` with `$e = 1 + 2`), inside an operand (`|v| v + $e` with `$e = 1 << 2`), as a
    whole operand. And `let name =` in front of values that a Rust `let` expression would not take (`a || b`, a struct literal)."""
    out = []
    cases = [
        # (macro_rules head, body with $-params, call arguments, reference expression)
        ("($e:expr)", "join! { $e ..pow(2) }", "1u32 + 2u32", "(1u32 + 2u32).pow(2)"),
        ("($e:expr)", "join! { $e ..abs() }", "-7i32", "(-7i32).abs()"),
        ("($e:expr)", "join! { $e ..count_ones() }", "300u32 as u8", "(300u32 as u8).count_ones()"),
        ("($e:expr)", "join! { $e |> |v| { z(1, &v); v + 1 } =>[] Vec<u32> }", "0u32..3", "(0u32..3).map(|v| { z(1, &v); v + 1 }).collect::<Vec<u32>>()"),
        ("($e:expr)", "join! { Some(1u32) |> |v| { z(1, &v); v + $e } }", "1 << 2", "Some(1u32).map(|v| { z(1, &v); v + (1 << 2) })"),
        ("($e:expr)", "join! { Some(2u32) |> |v| { z(1, &v); let w = v * $e; w } }", "1 + 2", "Some(2u32).map(|v| { z(1, &v); let w = v * (1 + 2); w })"),
        ("($e:expr)", "try_join! { Some(2u32) => |v| { z(1, &v); Some(v - $e) }, Some(1u32) }", "3 - 2", "{ z(1, &2u32); Some((2u32 - (3 - 2), 1u32)) }"),
        ("($e:expr, $f:expr)", "join_spawn! { Some(1u32) |> $f, Some($e * 2) }", "1u32 + 1, |v| v + 1", "(Some(1u32).map(|v| v + 1), Some((1u32 + 1) * 2))"),
        ("($a:expr, $b:expr)", "join! { let any = $a || $b -> |v: bool| { z(1, &v); !v }, 3u32 ~-> { let k = any; move |v: u32| if k { v } else { v + 1 } } }", "false, false",
         "{ let any = (|v: bool| { z(1, &v); !v })(false || false); (any, 3u32) }"),
        ("()", "{ struct P { x: u32 } let base = P { x: 7 }; join! { let p = P { ..base } -> |p: P| { z(1, &p.x); p.x }, let q = 1 > 2 || 3 > 2, 3u32 ~-> { let k = p; move |v: u32| v + k } } }", "",
         "{ z(1, &7u32); (7u32, true, 10u32) }"),
        ("()", "try_join! { let ok = 1 < 2 && 2 < 3 -> |b: bool| { z(1, &b); if b { Some(1u8) } else { None } }, Some(2u8) ~|> { let k = ok.unwrap(); move |v| v + k } }", "",
         "{ z(1, &true); Some((1u8, 3u8)) }"),
    ]
    for (head, body, args, ref) in cases:
        kind = body.split("!")[0].split()[-1].strip("{ ") if "!" in body else "join"
        kind = [k for k in ("try_join", "join_spawn", "join") if (k + "!") in body][0]

        def mk(pid, head=head, body=body, args=args, ref=ref, kind=kind):
            m = "pub fn m_%d() -> String { macro_rules! __fr { %s => { %s } } let __res = __fr!(%s); dbg(__res) }" % (pid, head, body, args)
            r = "pub fn r_%d() -> String { let __res = %s; dbg(__res) }" % (pid, ref)
            ent = "Twin { id: %d, kind: %s, m: m_%d, r: r_%d, srcs: &[], branches: &[(1, 3)], tags: %s, text: %s, reference: %s, max_id: 4 }" % (
                pid, rs(kind), pid, pid, rs("scope,sp:expr_fragment_or_let_value"), rs("__fr!(%s) with __fr = %s => { %s }" % (args, head, body)), rs(ref))
            return m + "\n" + r, ent
        out.append(LiteralTwin(kind, ["scope"], mk))
    return out


def misc_twins():
    """(a) a wrapper left open at a step end whose last inner action is `-> Some` / `-> Ok` written as a bare path: the step can
        still fail (the wrapper is not entered for `None` / `Err`), and then nothing of the next step runs (seeded change C05-m);
    (b) lazy branches whose value *is* a zero-argument closure literal: the joiner / the branch thread gets a thunk that yields
        that closure, it does not call the user's closure (seeded change C16-m)."""
    out = []
    cases = []
    for kind in ("try_join", "try_join_spawn"):
        for fail in (True, False):
            src = "None::<u32>" if fail else "Some(4u32)"
            dsl = "%s => >>> -> |x: u32| { z(2, &x); x + 1 } -> Some ~|> |v| { z(3, &v); v + 1 }, Some(1u32) ~|> |v| { z(5, &v); v }" % src
            ref = "None::<(u32, u32)>" if fail else "{ z(2, &4u32); z(3, &5u32); z(5, &1u32); Some((6u32, 1u32)) }"
            cases.append((kind, "", "%s! { %s }" % (kind, dsl), ref, "w:open_wrapper_ending_in_bare_Some"))
            srcr = "Err::<u32, u8>(7)" if fail else "Ok::<u32, u8>(4)"
            dsl = "%s |> >>> -> |x: u32| { z(2, &x); x + 1 } -> Ok::<u32, u8> ~=> |r| { z(3, &r); r }, Ok::<u32, u8>(1) ~|> |v| { z(5, &v); v }" % srcr
            ref = "Err::<(u32, u32), u8>(7)" if fail else "{ z(2, &4u32); z(3, &Ok::<u32, u8>(5)); z(5, &1u32); Ok::<(u32, u32), u8>((5u32, 1u32)) }"
            cases.append((kind, "", "%s! { %s }" % (kind, dsl), ref, "w:open_wrapper_ending_in_bare_Ok"))
    thunks = "move || { z(1, &1u32); 1u64 }, move || { z(5, &2u32); 2u64 }"
    rthunk = "{ let a = move || { z(1, &1u32); 1u64 }; let b = move || { z(5, &2u32); 2u64 }; a() + b() }"
    cases.append(("join_spawn", "", "{ let (a, b) = join_spawn! { %s }; a() + b() }" % thunks, rthunk, "sp:lazy_branch_is_a_closure_literal"))
    jl = "fn jl<A: FnOnce() -> X, X, B: FnOnce() -> Y, Y>(a: A, b: B) -> (X, Y) { (a(), b()) }"
    cases.append(("join", jl, "{ let (a, b) = join! { lazy_branches(true) custom_joiner(jl) %s }; a() + b() }" % thunks, rthunk, "sp:lazy_branch_is_a_closure_literal"))
    # (c) an invocation that is evaluated while its thread is unwinding (a flush-on-drop guard): every callback still runs
    #     (seeded change C10-m skips the `??` callback there)
    guard = "struct G; impl Drop for G { fn drop(&mut self) { let _ = %s; } } let __r = ::std::panic::catch_unwind(|| { let _g = G; if yes_always() { panic!(\"unwinding\") } }); "
    yes = "fn yes_always() -> bool { true } "
    cases.append(("join", yes + guard % "join! { Some(8u32) ?? |v: &Option<u32>| { z(1, v); } |> |v| { z(2, &v); v } ~|> |v| { z(3, &v); v } }", "__r.is_err()",
                  "{ let o = Some(8u32); z(1, &o); let o = o.map(|v| { z(2, &v); v }); o.map(|v| { z(3, &v); v }) }", "sp:evaluated_during_unwinding"))
    # (d) a block operand inside a wrapper of an async spawn macro (a move-only closure in an FnOnce wrapper, which is the shape
    #     that can cross the 'static boundary): still evaluated once, in front of its step (seeded change C11-m)
    for kind in ("join_async_spawn", "async_spawn"):
        dsl = ("futures::future::ok::<_, ()>(Ok::<usize, ()>(1)) |> |v| { z(1, &0u8); v } => >>> |> { zc(2); let tag = ::std::sync::Arc::new(String::from(\"ab\")); "
               "move |v: usize| { z(3, &v); v + tag.len() } } -> futures::future::ready, futures::future::ready(1usize)")
        cases.append((kind, "", "run_async_val(async { %s! { %s }.await })" % (kind, dsl),
                      "{ zc(2); z(1, &0u8); z(3, &1usize); (Ok::<usize, ()>(3usize), 1usize) }", "cap,sp:block_inside_wrapper_of_async_spawn"))
    for (kind, pre, mexpr, ref, tag) in cases:
        if tag == "sp:evaluated_during_unwinding":
            pre, ref = pre, ref
        def mk(pid, kind=kind, pre=pre, mexpr=mexpr, ref=ref, tag=tag):
            if tag == "sp:evaluated_during_unwinding":
                m = "pub fn m_%d() -> String { %s let __res = %s; dbg(__res) }" % (pid, pre, mexpr)
                r = "pub fn r_%d() -> String { %s let __res = %s; dbg(__res) }" % (pid, yes + guard % ref, mexpr)
                ent = "Twin { id: %d, kind: %s, m: m_%d, r: r_%d, srcs: &[], branches: &[(1, 5), (5, 7)], tags: %s, text: %s, reference: %s, max_id: 8 }" % (
                    pid, rs(kind), pid, pid, rs("wrap," + tag), rs(pre), rs(ref))
                return m + "\n" + r, ent
            m = "pub fn m_%d() -> String { %s let __res = %s; dbg(__res) }" % (pid, pre, mexpr)
            r = "pub fn r_%d() -> String { %s let __res = %s; dbg(__res) }" % (pid, pre, ref)
            ent = "Twin { id: %d, kind: %s, m: m_%d, r: r_%d, srcs: &[], branches: &[(1, 5), (5, 7)], tags: %s, text: %s, reference: %s, max_id: 8 }" % (
                pid, rs(kind), pid, pid, rs("wrap," + tag), rs(mexpr), rs(ref))
            return m + "\n" + r, ent
        out.append(LiteralTwin(kind, ["wrap"], mk))
    return out


def render_prog(p, mode="twin"):
    """Returns (source of m_N and r_N, twin table entry) or None if the program cannot be rendered for its kind."""
    if isinstance(p, LiteralTwin):
        return p.mk(p.id)
    kind = p.kind
    asy = kind in ASYNC_KINDS
    is_try = kind.startswith("try_")
    flavour = "async" if asy else "sync"
    n = len(p.branches)
    # ---------------- DSL text
    parts = []
    finals = []
    for (src, src_cap, start, ms, _) in p.branches:
        w = end_world(ms, start)
        finals.append(w)
        t = src + (" " + render_dsl(ms, True, asy and w not in FUT_OUT or (asy and is_try and w != "TF")) if ms else "")
        if asy:
            if w in FUT_OUT:
                if is_try and w != "TF":
                    t += " -> fut_ok"
            elif is_try:
                t += " -> |x| futures::future::ready(Ok::<_, u8>(x))"
            else:
                t += " -> futures::future::ready"
        parts.append(t)
    if any(f not in TERMINAL and f not in FUT_OUT for f in finals):
        return None
    if not asy and any(f in FUT_OUT for f in finals):
        return None
    dsl = ", ".join(parts)
    # result type annotation (needed by untyped collect / partition / unzip at the end)
    tys = [FUT_OUT.get(f) or RUST[f] for f in finals]
    if is_try:
        if asy:
            tys = ["u32" if f == "TF" else t for f, t in zip(finals, tys)]
            inner = tys[0] if n == 1 else "(%s)" % ", ".join(tys)
            rty = "Result<%s, u8>" % inner
        else:
            fam = finals[0]
            unwrapped = [{"O": "u32", "R": "u32"}[f] for f in finals]
            inner = unwrapped[0] if n == 1 else "(%s)" % ", ".join(unwrapped)
            rty = "Option<%s>" % inner if fam == "O" else "Result<%s, u8>" % inner
    else:
        rty = tys[0] if n == 1 else "(%s)" % ", ".join(tys)
    # ---------------- reference
    ctx = RefCtx(flavour)
    stmts = []
    names = ["__b%d" % i for i in range(n)]
    maxd = max(len(split_steps(ms)) for (_, _, _, ms, _) in p.branches)
    per_branch_steps = [split_steps(ms) for (_, _, _, ms, _) in p.branches]
    for k in range(maxd):
        ctx.lets = []
        chains = []
        for i, (src, src_cap, start, ms, _) in enumerate(p.branches):
            st = per_branch_steps[i]
            if k >= len(st):
                continue
            if k == 0:
                # the reference applies the chain to the *value* of the initial expression
                recv = hoist(ctx, src, src_cap) if src_cap else "(%s)" % src
            elif asy:
                recv = "async move { %s }" % names[i]
            else:
                recv = names[i]
            c = render_ref(st[k], recv, ctx)
            step_end = end_world(st[k], start if k == 0 else end_world(st[k - 1], start))
            if asy and step_end in FUT_OUT:
                c = "(%s).await" % c  # the macro awaits every step's future
            chains.append((i, c))
        stmts += ctx.lets
        for i, c in chains:
            stmts.append("let mut %s = %s;" % (names[i], c))
        if is_try and not asy and k < maxd - 1:
            # between the steps of a try macro: the lowest-numbered active branch that ended the step None / Err is the result
            fam = finals[0]
            act = [i for i, _ in chains]
            if fam == "O":
                stmts.append("if %s { break '__try None; }" % " || ".join("%s.is_none()" % names[i] for i in act))
            else:
                for i in act:
                    stmts.append("if let Err(e) = &%s { break '__try Err(*e); }" % names[i])
    tup = names[0] if n == 1 else "(%s)" % ", ".join(names)
    if is_try and not asy:
        fam = finals[0]
        if fam == "O":
            body = "match %s { %s => Some(%s), _ => None }" % (
                tup if n > 1 else names[0], ("(%s)" % ", ".join("Some(v%d)" % i for i in range(n))) if n > 1 else "Some(v0)",
                ("(%s)" % ", ".join("v%d" % i for i in range(n))) if n > 1 else "v0")
        else:
            # first failing branch in branch order wins
            inner = "Ok(%s)" % (("(%s)" % ", ".join("v%d" % i for i in range(n))) if n > 1 else "v0")
            for i in reversed(range(n)):
                inner = "match %s { Ok(v%d) => %s, Err(e) => Err(e) }" % (names[i], i, inner)
            body = inner
        final = body
    elif is_try and asy:
        # every branch yields a Result: TryFuture branches their own, the others Ok(value); first Err in branch order
        inner = "Ok::<_, u8>(%s)" % (("(%s)" % ", ".join("v%d" % i for i in range(n))) if n > 1 else "v0")
        for i in reversed(range(n)):
            src_i = names[i] if finals[i] == "TF" else "Ok::<_, u8>(%s)" % names[i]
            inner = "match %s { Ok(v%d) => %s, Err(e) => Err(e) }" % (src_i, i, inner)
        final = inner
    else:
        final = tup
    if is_try and not asy and maxd > 1:
        ref_body = "let __res: %s = '__try: { %s %s }; __res" % (rty, " ".join(stmts), final)
    else:
        ref_body = " ".join(stmts) + " let __res: %s = %s; __res" % (rty, final)
    # ---------------- functions
    if mode == "noalloc":
        m_fn = "pub fn m_%d() -> String { let (__res, __n) = vrt::alloc::measure(|| { let __res: %s = %s! { %s }; __res }); format!(\"{:?}|allocs={}\", __res, __n) }" % (p.id, rty, kind, dsl)
        r_fn = "pub fn r_%d() -> String { let (__res, __n) = vrt::alloc::measure(|| { %s }); format!(\"{:?}|allocs={}\", __res, __n) }" % (p.id, ref_body)
        srcs = ", ".join("(%d, %d)" % s for s in p.srcs)
        brs = ", ".join("(%d, %d)" % b[4] for b in p.branches)
        entry = "Twin { id: %d, kind: %s, m: m_%d, r: r_%d, srcs: &[%s], branches: &[%s], tags: %s, text: %s, reference: %s, max_id: %d }" % (
            p.id, rs(kind), p.id, p.id, srcs, brs, rs(",".join(sorted(p.tags | {"noalloc"}))), rs(noalloc_transform(dsl)), rs(noalloc_transform(ref_body)), p.max_id)
        return noalloc_transform(m_fn + "\n" + r_fn), entry
    # the invocation stands in different syntactic / item contexts (only the macro side; the reference stays plain)
    # operands of the sequential macros are part of the caller's function body: they may `continue` / `break` a loop of the
    # caller (the jump is never taken here, it only has to compile)
    loop_ctx = kind in ("join", "try_join") and (p.id % 5 == 3 or getattr(p, "force_loop", False)) and not p.branches[0][1]
    if loop_ctx:
        src0 = p.branches[0][0]
        jump = "continue" if p.id % 2 else "break"
        dsl_m = dsl.replace(src0, "(if __lp > 5 { %s } else { %s })" % (jump, src0), 1)
        stmt = "for __lp in 0..1u8 { let __res: %s = %s! { %s }; return dbg(__res); } unreachable!()" % (rty, kind, dsl_m)
        m_fn = "pub fn m_%d() -> String { %s }" % (p.id, stmt)
        r_fn = "pub fn r_%d() -> String { dbg({ %s }) }" % (p.id, ref_body)
        p.tags.add("sp:operand_jumps_to_callers_loop")
        srcs = ", ".join("(%d, %d)" % s for s in p.srcs)
        brs = ", ".join("(%d, %d)" % b[4] for b in p.branches)
        entry = "Twin { id: %d, kind: %s, m: m_%d, r: r_%d, srcs: &[%s], branches: &[%s], tags: %s, text: %s, reference: %s, max_id: %d }" % (
            p.id, rs(kind), p.id, p.id, srcs, brs, rs(",".join(sorted(p.tags))), rs(dsl_m), rs(ref_body), p.max_id)
        return m_fn + "\n" + r_fn, entry
    fw = forwarded(p.id, kind, dsl)
    if fw is not None:
        p.tags.add("sp:invocation_forwarded_through_macro_rules")
        if asy:
            stmt = "run_async(async { let __res: %s = %s.await; dbg(__res) })" % (rty, fw)
            r_fn = "pub fn r_%d() -> String { run_async(async { dbg({ %s }) }) }" % (p.id, ref_body)
        else:
            stmt = "let __res: %s = %s; dbg(__res)" % (rty, fw)
            r_fn = "pub fn r_%d() -> String { dbg({ %s }) }" % (p.id, ref_body)
    elif asy:
        stmt = "run_async(async { let __res: %s = %s! { %s }.await; dbg(__res) })" % (rty, call_name(p.id, kind), dsl)
        r_fn = "pub fn r_%d() -> String { run_async(async { dbg({ %s }) }) }" % (p.id, ref_body)
    else:
        if p.id % 7 == 5:
            stmt = "dbg::<%s>(%s! { %s })" % (rty, call_name(p.id, kind), dsl)           # argument position
        elif p.id % 7 == 0 and not any(needs_annotation(b[3]) for b in p.branches):
            # no type expected from the surroundings: the chain alone determines the type
            stmt = "let __res = %s! { %s }; dbg(__res)" % (call_name(p.id, kind), dsl)
        else:
            stmt = "let __res: %s = %s! { %s }; dbg(__res)" % (rty, call_name(p.id, kind), dsl)
        r_fn = "pub fn r_%d() -> String { dbg({ %s }) }" % (p.id, ref_body)
    m_fn = "pub fn m_%d() -> String { %s }" % (p.id, in_context(p.id, stmt))
    srcs = ", ".join("(%d, %d)" % s for s in p.srcs)
    brs = ", ".join("(%d, %d)" % b[4] for b in p.branches)
    entry = "Twin { id: %d, kind: %s, m: m_%d, r: r_%d, srcs: &[%s], branches: &[%s], tags: %s, text: %s, reference: %s, max_id: %d }" % (
        p.id, rs(kind), p.id, p.id, srcs, brs, rs(",".join(sorted(p.tags))), rs(dsl), rs(ref_body), p.max_id)
    return m_fn + "\n" + r_fn, entry


def rs(s):
    return '"' + s.replace("\\", "\\\\").replace('"', '\\"') + '"'


def kind_ok(p):
    """Programs with captures inside wrappers cannot cross 'static boundaries (see gen/probe.py)."""
    if "cap_in_wrap" in p.tags and ("spawn" in p.kind or "async" in p.kind):
        return False
    return True


def gen_forced(pid, rng, kind, world, pick, nth, second=None, force_capture=False):
    """A program whose first branch reaches `world` by the shortest path, applies one chosen member there
    (pick(g, world, last) -> Member or None), optionally a second one, and finishes. Guarantees coverage of
    every transition / wrapper / adjacent pair regardless of what the random walk happens to visit."""
    flavour = "async" if kind in ASYNC_KINDS else "sync"
    is_try = kind.startswith("try_")
    p = Prog()
    p.id = pid
    p.kind = kind
    g = G(rng, flavour)
    for start in (["FP", "TF", "S"] if (flavour == "async" and world in ASYNC_WORLDS) else []) + ["O", "R", "I", "P"]:
        path = [] if start == world else g.bfs(start, lambda x: x == world)
        if path is None:
            continue
        lo = g.next_id
        fn, nshapes = SRC[start]
        sid = g.nid()
        if force_capture and not is_try:
            # an earlier branch with eagerly invoked callbacks: an operand that is not hoisted is evaluated after them
            w0 = "O"
            fn0, n0 = SRC[w0]
            sid0 = g.nid()
            p.srcs.append((sid0, n0))
            pre = [g.mk(g.transitions(w0, False)[0]), g.mk(g.transitions(w0, False)[5])]
            p.branches.append(("%s(%d)" % (fn0, sid0), 0, w0, pre, (lo, g.next_id)))
            lo = g.next_id
            sid = g.nid()
        g.force_capture = force_capture
        m = pick(g, world, True, nth)
        g.force_capture = False
        if m is None:
            return None
        ms = path + [m]
        cur = m.to
        if second is not None:
            m2 = second(g, cur, True)
            if m2 is None:
                return None
            ms.append(m2)
            cur = m2.to
        target = None
        if is_try and flavour == "sync":
            target = "O" if cur != "R" else "R"
        fin = g.finish(cur, target)
        if fin is None:
            return None
        ms += fin
        # the forced member must still be "last" if it relies on the context for its type
        if needs_annotation([m]) and ms[-1] is not m:
            return None
        p.srcs.append((sid, nshapes))
        p.branches.append(("%s(%d)" % (fn, sid), 0, start, ms, (lo, g.next_id)))
        if "spawn" in kind:
            lo2 = g.next_id
            w2 = (target or "O") if is_try and flavour == "sync" else "O"
            fn2, n2 = SRC[w2]
            sid2 = g.nid()
            p.srcs.append((sid2, n2))
            extra = g.walk(w2, 1, 0, target=(target if is_try and flavour == "sync" else None))
            p.branches.append(("%s(%d)" % (fn2, sid2), 0, w2, extra or [], (lo2, g.next_id)))
        p.max_id = g.next_id + 1

        def tagwalk(ms, inside):
            for mm in ms:
                p.tags.add("op:" + mm.tag)
                if mm.inner is not None:
                    p.tags.add("wrap")
                    p.tags.add("w:%s:%s" % (mm.op, "explicit" if mm.explicit_close else "implicit"))
                    tagwalk(mm.inner, True)
                if any(mm.caps):
                    p.tags.add("cap")
                    if inside:
                        p.tags.add("cap_in_wrap")
        for b in p.branches:
            tagwalk(b[3], False)
        for sname in g.spellings:
            p.tags.add("sp:" + sname)
        p.tags.add("forced")
        return p
    return None


def gen_capture_grid(pid, rng, kind, world, ops, nbranches=3, per_step=3):
    """Every action of `nbranches` branches carries a block operand, in two steps, all from one operator family that maps
    `world` to itself (e.g. the error-side operators over Result): whichever way hoisted bindings are named, every
    (branch, position) pair of both steps is used at once."""
    flavour = "async" if kind in ASYNC_KINDS else "sync"
    p = Prog()
    p.id = pid
    p.kind = kind
    g = G(rng, flavour)
    for b in range(nbranches):
        lo = g.next_id
        fn, nshapes = SRC[world]
        sid = g.nid()
        p.srcs.append((sid, nshapes))
        ms = []
        g.force_capture = True
        for i in range(2 * per_step):
            ts = [t for t in g.transitions(world, False) if t[0] in ops and t[2] == world]
            if not ts:
                return None
            ms.append(g.mk(rng.choice(ts), deferred=(i == per_step and flavour == "sync")))
        g.force_capture = False
        p.branches.append(("%s(%d)" % (fn, sid), 0, world, ms, (lo, g.next_id)))
    p.max_id = g.next_id + 1
    for (_, _, _, ms, _) in p.branches:
        for mm in ms:
            p.tags.add("op:" + mm.tag)
    p.tags |= {"cap", "forced", "sp:capture_grid"}
    for sname in g.spellings:
        p.tags.add("sp:" + sname)
    return p


WORLDS = ["O", "OO", "OP", "R", "RR", "I", "IP", "IE", "IO", "IR", "II", "P", "V", "B", "U", "OV", "RV"]


def build_corpus(tier, seed):
    rng = random.Random(seed * 104729 + (3 if tier == "thorough" else 0))
    n = 600 if tier == "quick" else 5000
    progs = []
    pid = [0]

    def keep(p):
        if p is None or not kind_ok(p) or render_prog(p) is None:
            return False
        p.id = pid[0]
        pid[0] += 1
        progs.append(p)
        return True

    kinds_cycle = ["join", "join_spawn", "join_async", "spawn", "join_async_spawn", "try_join", "async_spawn", "try_join_async",
                   "try_join_spawn", "try_spawn", "try_join_async_spawn", "try_async_spawn"]
    kc = [0]

    def next_kind():
        kc[0] += 1
        return kinds_cycle[kc[0] % len(kinds_cycle)]

    # (a) every transition of every world, under rotating macro kinds (several tries: a kind may not fit)
    probe_g = G(random.Random(1), "sync")
    for w in WORLDS:
        for last in (False, True):
            ts_sync = probe_g.transitions(w, last)
            for ti in range(len(ts_sync)):
                if not last and ti >= len(probe_g.transitions(w, False)):
                    continue
                if last and ts_sync[ti][4] in [t[4] for t in probe_g.transitions(w, False)]:
                    continue  # already covered by the non-last pass

                def pick(g, world, is_last, nth, last=last):
                    ts = g.transitions(world, last)
                    return g.mk(ts[nth]) if nth < len(ts) else None
                for attempt in range(4):
                    if keep(gen_forced(0, rng, next_kind(), w, pick, ti)):
                        break
    # (a'') every transition again with every operand written as a block capture, behind a branch with eager callbacks
    cap_kinds = ["join", "join_spawn", "join", "spawn", "join_async", "join"]
    ck = [0]
    for w in WORLDS:
        ts_sync = probe_g.transitions(w, False)
        for ti in range(len(ts_sync)):
            def pickc(g, world, is_last, nth):
                ts = g.transitions(world, False)
                return g.mk(ts[nth]) if nth < len(ts) else None
            for attempt in range(4):
                ck[0] += 1
                if keep(gen_forced(0, rng, cap_kinds[ck[0] % len(cap_kinds)], w, pickc, ti, force_capture=True)):
                    break
    # (a') the same for the async worlds (futures, try-futures, streams) under the async macros
    probe_a = G(random.Random(1), "async")
    akc = [0]

    def next_async_kind():
        akc[0] += 1
        return ASYNC_KINDS[akc[0] % len(ASYNC_KINDS)]
    for w in ["FP", "FFP", "FO", "TF", "FV", "FVV", "FU", "S", "SP", "SE", "SS", "SR", "FVR", "TTF", "SFO"]:
        for last in (False, True):
            ts = probe_a.transitions(w, last)
            base_tags = [t[4] for t in probe_a.transitions(w, False)]
            for ti in range(len(ts)):
                if last and ts[ti][4] in base_tags:
                    continue

                def picka(g, world, is_last, nth, last=last):
                    tt = g.transitions(world, last)
                    return g.mk(tt[nth]) if nth < len(tt) else None
                for attempt in range(6):
                    if keep(gen_forced(0, rng, next_async_kind(), w, picka, ti)):
                        break
    for (w, op) in [("FP", "map"), ("FP", "inspect"), ("TF", "and_then"), ("TF", "or_else"), ("TF", "map_err"), ("TF", "inspect"), ("S", "map"), ("S", "filter"), ("S", "filter_map"), ("S", "inspect"), ("TTF", "and_then"), ("SFO", "filter_map")]:
        for explicit in (True, False):
            def pickaw(g, world, is_last, nth, op=op, explicit=explicit):
                for _ in range(40):
                    m = g.wrapper(world, 0, True)
                    if m is not None and m.op == op:
                        m.explicit_close = explicit
                        m.tag = "w:async:" + op
                        return m
                return None
            for attempt in range(6):
                if keep(gen_forced(0, rng, next_async_kind(), w, pickaw, 0)):
                    break
    # (b) every wrapper operator, explicit and implicit closing, depth 1..3
    for (w, op) in list(G.WRAPS.keys()) + [("O", "inspect"), ("R", "inspect"), ("I", "partition")]:
        for explicit in (True, False):
            for depth_try in range(3):
                def pickw(g, world, is_last, nth, op=op, explicit=explicit):
                    for _ in range(30):
                        m = g.wrapper(world, 0, True)
                        if m is not None and m.op == op:
                            m.explicit_close = explicit
                            return m
                    return None
                for attempt in range(4):
                    if keep(gen_forced(0, rng, next_kind(), w, pickw, 0)):
                        break
    # (b'') every wrapper that can be empty (`op >>> <<<`, `op >>>` at the end, `op >>> ~next`), sync and async
    for flav, table in (("sync", G.WRAPS), ("async", G.AWRAPS)):
        for (w, op), ent in table.items():
            if ent[1] not in ent[2]:
                continue
            for explicit in (True, False):
                def picke(g, world, is_last, nth, op=op, explicit=explicit):
                    return g.empty_wrapper(world, op, explicit)
                for attempt in range(6):
                    if keep(gen_forced(0, rng, next_kind() if flav == "sync" else next_async_kind(), w, picke, 0)):
                        break
    # (a5) multi-step chains under `join!` / `try_join!` inside a loop of the caller, an operand jumping to that loop
    for kind in ("try_join", "join", "try_join", "try_join"):
        for attempt in range(40):
            cand = gen_prog(0, rng, kind, rng.randint(3, 7))
            if cand is None or cand.branches[0][1] or not any(m.deferred for b in cand.branches for m in b[3]):
                continue
            cand.force_loop = True
            if keep(cand):
                progs[-1].tags.add("sp:multi_step_in_callers_loop")
                break
    # (a6) thread kinds: a step opened by a deferred operator that takes no operand (`~|n>`, `~=>[] T`, `~^^>`) behind lazy
    #      iterator closures of the step before — they run in that later step, on the branch's own thread
    for kind in ("join_spawn", "spawn", "join_spawn"):
        for opener in ("enumerate", "collect", "flatten"):
            p6 = Prog()
            p6.id = 0
            p6.kind = kind
            g6 = G(rng, "sync")
            ok6 = True
            for b in range(2):
                lo = g6.next_id
                fn, nshapes = SRC["I"]
                sid = g6.nid()
                p6.srcs.append((sid, nshapes))
                ts = g6.transitions("I", False)
                first = g6.mk(next(t for t in ts if t[4] == "map"))
                if opener == "flatten":
                    first = g6.mk(next(t for t in ts if t[0] == "map" and t[2] == "II"))
                    op2 = g6.mk(next(t for t in g6.transitions("II", False) if t[0] == "flatten"), deferred=True)
                elif opener == "enumerate":
                    op2 = g6.mk(next(t for t in ts if t[0] == "enumerate"), deferred=True)
                else:
                    op2 = g6.mk(next(t for t in ts if t[4] == "collect/typed"), deferred=True)
                ms = [first, op2]
                target = "O" if kind.startswith("try_") else None
                fin = g6.finish(op2.to, target)
                if fin is None:
                    ok6 = False
                    break
                ms += fin
                p6.branches.append(("%s(%d)" % (fn, sid), 0, "I", ms, (lo, g6.next_id)))
            if not ok6:
                continue
            p6.max_id = g6.next_id + 1
            for (_, _, _, ms, _) in p6.branches:
                for mm in ms:
                    p6.tags.add("op:" + mm.tag)
            p6.tags |= {"forced", "eqdepth", "sp:step_opened_by_operand_less_operator"}
            keep(p6)
    # (a4) capture grids: three branches x three positions x two steps with a block operand on every action
    for kind in ("join", "join_spawn", "spawn", "join"):
        for world, ops in (("R", ("or", "or_else", "map_err")), ("R", ("map", "and_then", "or", "map_err")), ("O", ("map", "and_then", "filter", "or", "or_else")),
                           ("I", ("map", "filter", "filter_map", "chain")), ("O", ("or", "or_else", "zip") if False else ("or", "or_else"))):
            for attempt in range(3):
                if keep(gen_capture_grid(0, rng, kind, world, ops)):
                    break
    # (b4) every wrapper whose wrapped value admits `??`: a `??` as the first inner action (in the async macros that is the
    #      value's own `.inspect`, at every nesting depth)
    for flav, table in (("sync", G.WRAPS), ("async", G.AWRAPS), ("async", G.WRAPS)):
        for (w, op), ent in table.items():
            for explicit in (True, False):
                def picki(g, world, is_last, nth, op=op, explicit=explicit):
                    return g.lone_inspect_wrapper(world, op, explicit)
                for attempt in range(4):
                    if keep(gen_forced(0, rng, next_kind() if flav == "sync" else next_async_kind(), w, picki, 0)):
                        break
    # (b3) every wrapper around a lone `->` whose callee is a call expression
    for flav, table in (("sync", G.WRAPS), ("async", G.AWRAPS)):
        for (w, op), ent in table.items():
            for explicit in (True, False):
                def pickl(g, world, is_last, nth, op=op, explicit=explicit):
                    return g.lone_then_wrapper(world, op, explicit)
                for attempt in range(6):
                    if keep(gen_forced(0, rng, next_kind() if flav == "sync" else next_async_kind(), w, pickl, 0)):
                        break
    # (b') a wrapper left open at the end of a step (implicit close, possibly several levels at once), the next step opened
    #      by a deferred wrapper or a deferred plain operator (step boundaries and wrapper nesting interact here)
    dk = [0]
    defer_kinds = ["join", "join_spawn", "spawn", "join"]
    for (w, op) in list(G.WRAPS.keys()) + [("O", "inspect"), ("R", "inspect")]:
        for second_kind in ("wrapper", "plain", "wrapper_open"):
            def pickw1(g, world, is_last, nth, op=op):
                for _ in range(30):
                    m = g.wrapper(world, 0, False)
                    if m is not None and m.op == op:
                        m.explicit_close = False
                        # leave a trailing inner wrapper open too, when there is one
                        if m.inner and m.inner[-1].inner is not None:
                            m.inner[-1].explicit_close = False
                        return m
                return None

            def second1(g, cur, is_last, second_kind=second_kind):
                m2 = None
                if second_kind != "plain":
                    for _ in range(30):
                        m2 = g.wrapper(cur, 0, False)
                        if m2 is not None:
                            m2.explicit_close = second_kind == "wrapper"
                            break
                if m2 is None:
                    ts = g.transitions(cur, False)
                    if not ts:
                        return None
                    m2 = g.mk(g.rng.choice(ts))
                m2.deferred = True
                return m2
            for attempt in range(4):
                dk[0] += 1
                if keep(gen_forced(0, rng, defer_kinds[dk[0] % len(defer_kinds)], w, pickw1, 0, second=second1)):
                    progs[-1].tags.add("sp:open_wrapper_then_deferred_" + second_kind)
                    break
    # (c) adjacent operator pairs (sampled in quick, all typeable ones in thorough)
    pairs = []
    for w in WORLDS:
        t1s = probe_g.transitions(w, False)
        for i, t1 in enumerate(t1s):
            t2s = probe_g.transitions(t1[2], False)
            for j in range(len(t2s)):
                pairs.append((w, i, j))
    rng.shuffle(pairs)
    if tier == "quick":
        pairs = pairs[:250]
    for (w, i, j) in pairs:
        def pick1(g, world, is_last, nth):
            ts = g.transitions(world, False)
            return g.mk(ts[nth]) if nth < len(ts) else None

        def pick2(g, world, is_last, j=j):
            ts = g.transitions(world, False)
            return g.mk(ts[j]) if j < len(ts) else None
        for attempt in range(3):
            if keep(gen_forced(0, rng, next_kind(), w, pick1, i, second=pick2)):
                break
    # (d) random walks
    tries = 0
    target_total = len(progs) + n
    while len(progs) < target_total and tries < n * 5:
        tries += 1
        kind = ALL_KINDS[tries % 12] if rng.random() < 0.6 else rng.choice(SYNC_KINDS)
        length = rng.choice([0, 1, 2, 3, 4, 5, 6, 8] if tier == "quick" else [0, 1, 2, 3, 4, 6, 8, 12, 16])
        keep(gen_prog(0, rng, kind, length))
    for lt in wrapper_capture_twins() + fragment_twins() + misc_twins():
        lt.id = pid[0]
        pid[0] += 1
        progs.append(lt)
    return progs


def shadow_wrap(body):
    """"Shadowed environment": the caller's module has its own items called futures / tokio / std / core / alloc / join, so
    every path the expansion uses for its own purposes has to be absolute to keep meaning the same thing (C17: internal
    names never clash).  The twins' own operand text reaches the futures crate through the alias fx (use futures as fx)."""
    import re
    body = re.sub(r"(?<![:\w])futures::", "fx::", body)
    return ("pub use shadowed::*;\npub mod shadowed {\n    use super::*;\n"
            "    mod futures { pub fn join() -> u8 { 0 } pub mod future { pub fn ready() {} } }\n"
            "    mod tokio { pub fn spawn() {} }\n    mod std { pub mod thread { pub struct Builder; } }\n"
            "    mod core {}\n    mod alloc {}\n    mod join {}\n\n" + body + "\n}\n")


def edition_for(tag):
    """Corpora of odd seeds are compiled as edition-2021 crates, those of even seeds as edition 2018: the macro's output
    takes the edition of the calling crate (closure captures, prelude, reserved syntax differ)."""
    import re
    digits = re.sub(r"\D", "", tag)
    return "2021" if digits and int(digits) % 2 == 1 else "2018"


def write_crate(outdir, join_repo, vrt_path, progs, nshards=16, tag="x", skip=()):
    import os
    os.makedirs(os.path.join(outdir, "src", "bin"), exist_ok=True)
    with open(os.path.join(outdir, "Cargo.toml"), "w") as f:
        f.write("""[package]
name = "zoo_corpus"
version = "0.1.0"
edition = "%s"

[dependencies]
join = { path = "%s/join" }
vrt = { path = "%s" }
futures = "0.3"
tokio = { version = "1", features = ["rt", "rt-multi-thread", "time", "sync", "macros"] }

[profile.dev]
debug = 0
incremental = false
opt-level = 0

[workspace]
""" % (edition_for(tag), join_repo, vrt_path))
    shards = [[] for _ in range(nshards)]
    for i, p in enumerate(progs):
        if p.id in skip:
            continue
        shards[i % nshards].append(p)
    for si, sh in enumerate(shards):
        fns, entries = [], []
        for p in sh:
            r = render_prog(p)
            if r is None:
                continue
            fns.append("// twin %d\n%s" % (p.id, r[0]))
            entries.append(r[1])
        body = "\n".join(fns)
        if si % 4 == 1:
            body = shadow_wrap(body)
            entries = [e.replace('tags: "', 'tags: "shadowed,', 1) for e in entries]
        src = ("// generated by gen/zoo.py — do not edit\n#![allow(unused_imports, unused_mut, unused_variables, unused_parens, unused_braces, dead_code, clippy::all)]\n"
               "use join::*;\nuse vrt::zoo::*;\nuse futures as fx;\nuse futures::{FutureExt, TryFutureExt, StreamExt, TryStreamExt};\n\n" + body +
               "\n\npub static TWINS: &[Twin] = &[\n    " + ",\n    ".join(entries) + "\n];\n\nfn main() {\n    vrt::zoo::main(TWINS);\n}\n")
        with open(os.path.join(outdir, "src", "bin", "zoo_%s_%02d.rs" % (tag, si)), "w") as f:
            f.write(src)


if __name__ == "__main__":
    import sys
    tier, seed, outdir, join_repo, vrt_path = sys.argv[1], int(sys.argv[2]), sys.argv[3], sys.argv[4], sys.argv[5]
    progs = build_corpus(tier, seed)
    write_crate(outdir, join_repo, vrt_path, progs)
    print("programs=%d" % len(progs))
