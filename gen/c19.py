#!/usr/bin/env python3
"""C19 corpus: (a) allocation-free twins for the sequential macros, measured with a counting allocator;
(b) bounds programs over move-only, !Send and borrowing (also &mut) values."""
import itertools
import random
import zoo

ALL = zoo.ALL_KINDS


def rs(s):
    return zoo.rs(s)


def noalloc_programs(tier, seed):
    rng = random.Random(seed * 7 + 19)
    n = 260 if tier == "quick" else 2500
    progs, tries = [], 0
    while len(progs) < n and tries < n * 6:
        tries += 1
        kind = rng.choice(["join", "try_join"])
        length = rng.choice([1, 2, 3, 4, 5, 6, 8, 10])
        p = zoo.gen_prog(0, rng, kind, length)
        if zoo.render_prog(p) is None:
            continue
        p.id = len(progs)
        progs.append(p)
    return progs


def wide_programs(first_id):
    """Wide / deep sequential programs with allocation-free user code (two-digit and >32 branch counts)."""
    fns, entries = [], []
    pid = first_id
    for kind in ("join", "try_join"):
        tr = kind.startswith("try_")
        for nb, ns in ((2, 3), (12, 2), (24, 3), (33, 2), (40, 3), (33, 1)):
            branches, total = [], 0
            for b in range(nb):
                steps = ns if b % 3 != 1 else max(1, ns - 1)
                t = "Some(%du64)" % (b + 1)
                v = b + 1
                for k in range(steps):
                    t += " %s|> |v| v + %du64" % ("~" if k > 0 else "", k + 1)
                    v += k + 1
                branches.append(t)
                total += v
            params = ", ".join("a%d" % i for i in range(nb))
            if tr:
                h = "map => |%s| %s" % (params, " + ".join("a%d" % i for i in range(nb)))
                rty, exp = "Option<u64>", "Some(%d)" % total
            else:
                h = "then => |%s| %s" % (", ".join("a%d: Option<u64>" % i for i in range(nb)), " + ".join("a%d.unwrap()" % i for i in range(nb)))
                rty, exp = "u64", "%d" % total
            body = ", ".join(branches) + ", " + h
            m = "pub fn m_%d() -> String { let (__res, __n) = vrt::alloc::measure(|| { let __res: %s = %s! { %s }; __res }); format!(\"{:?}|allocs={}\", __res, __n) }" % (pid, rty, kind, body)
            r = "pub fn r_%d() -> String { String::from(%s) }" % (pid, rs(exp + "|allocs=0"))
            fns.append(m + "\n" + r)
            entries.append("Twin { id: %d, kind: %s, m: m_%d, r: r_%d, srcs: &[], branches: &[(1, 2)], tags: %s, text: %s, reference: %s, max_id: 4 }" % (
                pid, rs(kind), pid, pid, rs("noalloc,wide,wide:%dx%d" % (nb, ns)), rs(body[:300] + " ..."), rs(exp)))
            pid += 1
    return fns, entries


def bounds_programs(first_id):
    """Hand-written templates instantiated under the macros they must compile with.
    Each entry: (kind, prelude, macro body, result expression after the macro, expected Debug string, tag)."""
    out = []
    T = []
    # ---- sequential macros: borrows, &mut, !Send, move-only, non-'static captures
    for kind in ("join", "try_join"):
        tr = kind.startswith("try_")
        un = "" if tr else ".unwrap()"
        tup = (lambda *xs: "Some((%s))" % ", ".join(xs)) if tr else (lambda *xs: "(%s)" % ", ".join("Some(%s)" % x for x in xs))
        T.append((kind, "let data = [1u32, 2, 3, 4];", "Some(data.iter()) |> |it| it.map(|v| *v + 1).sum::<u32>(), Some(&data) |> |d| d.len()", "__r", tup("14", "4"), "shared_borrow"))
        T.append((kind, "let mut acc = 0u32;", "Some(&mut acc) |> |a| { *a += 5; 1u32 }, Some(2u32)", "(__r, acc)", "(%s, 5)" % tup("1", "2"), "mut_borrow"))
        T.append((kind, "let mut acc = 0u32;", "Some(&mut acc) |> |a| { *a += 1; a } ~|> |a| { *a += 1; *a }, Some(7u32) ~|> |v| v + 1", "(__r, acc)", "(%s, 2)" % tup("2", "8"), "mut_borrow_across_steps"))
        T.append((kind, "let rc = std::rc::Rc::new(std::cell::Cell::new(1u32));", "Some(rc.clone()) |> |r| { r.set(r.get() + 1); r.get() }, Some(&rc) |> |r| r.get() ~|> |v| v + 1", "(__r, rc.get())", "(%s, 2)" % tup("2", "2") if False else None, "rc_not_send"))
        T.append((kind, "let x = 41u32; struct P(*const u32);", "Some(P(&x)) |> |p| unsafe { *p.0 } + 1, Some(1u8)", "__r", tup("42", "1"), "raw_pointer_not_send"))
        T.append((kind, "", "Some(Tok::new()) |> |t| t ~|> |t| { drop(t); 1u32 }, Some(Tok::new()) |> |t| { drop(t); 2u32 }", "__r", tup("1", "2"), "move_only"))
        T.append((kind, "let data = [10u32, 20];", "Some(1u32) |> { let k = &data; move |v| v + k[0] } ~|> { let k2 = &data[1]; move |v| v + *k2 }, Some(0u8)", "__r", tup("31", "0"), "borrowing_capture"))
        T.append((kind, "let s = String::from(\"abc\");", "Some(s.as_str()) |> |t| t.len(), Some(&s) |> |t| t.len() + 1", "(__r, s.len())", "(%s, 3)" % tup("3", "4"), "borrowed_str"))
        if tr:
            T.append((kind, "let data = [5u32];", "Some(1u32), Some(2u32), map => |a, b| a + b + data[0]", "__r", "Some(8)", "borrowing_handler"))
            T.append((kind, "let mut log = [0u32; 2];", "let first = Some(3u32) |> |v| v + 1, Some(1u32) ~|> { let f = first.unwrap(); let l = &mut log; move |v| { l[0] = f; v + f } }", "(__r, log[0])", "(Some((4, 5)), 4)", "let_name_and_mut_capture"))
        else:
            T.append((kind, "let data = [5u32];", "Some(1u32), Some(2u32), then => |a: Option<u32>, b: Option<u32>| a.unwrap() + b.unwrap() + data[0]", "__r", "8", "borrowing_handler"))
            T.append((kind, "let mut log = [0u32; 2];", "let first = Some(3u32) |> |v| v + 1, Some(1u32) ~|> { let f = first.unwrap(); let l = &mut log; move |v| { l[0] = f; v + f } }", "(__r, log[0])", "((Some(4), Some(5)), 4)", "let_name_and_mut_capture"))
        # a fold / try_fold seed written as a block: moved into the fold, never cloned (move-only seed compiles,
        # a Clone-counting seed is cloned 0 times)
        T.append((kind, "let data = [1u32, 2, 3]; struct Acc(Tok, u32);", "data.iter() ^@ { Acc(Tok::new(), 10) }, |a: Acc, v: &u32| Acc(a.0, a.1 + *v) -> |a: Acc| Some(a.1), Some(1u8)", "__r", tup("16", "1"), "move_only_fold_seed"))
        T.append((kind, "let data = [1u32, 2, 3]; let mut hits = [0u32; 1]; let h = &mut hits;", "data.iter() ?^@ { (h, 5u32) }, |a: (&mut [u32; 1], u32), v: &u32| { a.0[0] += 1; Some((a.0, a.1 + *v)) } |> |a| a.1, Some(1u8)", "(__r, hits[0])", "(%s, 3)" % tup("11", "1"), "mut_borrowing_try_fold_seed"))
        T.append((kind, "let data = [1u32, 2, 3]; vrt::zoo::reset_clones();", "data.iter() ^@ { CountClone(7) }, |a: CountClone, v: &u32| CountClone(a.0 + *v) -> |a: CountClone| Some(a.0), data.iter() ?^@ { CountClone(1) }, |a: CountClone, v: &u32| Some(CountClone(a.0 + *v)) |> |a| a.0", "(__r, vrt::zoo::clones())", "(%s, 0)" % tup("13", "7"), "clone_counting_fold_seed"))
    # Rc result needs care: value after both branches = 2, second branch reads 2 (sequential) then +1
    T = [t for t in T if t[4] is not None]
    for kind in ("join", "try_join"):
        tr = kind.startswith("try_")
        exp = "(Some((2, 3)), 2)" if tr else "((Some(2), Some(3)), 2)"
        T.append((kind, "let rc = std::rc::Rc::new(std::cell::Cell::new(1u32));", "Some(rc.clone()) |> |r| { r.set(r.get() + 1); r.get() }, Some(&rc) |> |r| r.get() ~|> |v| v + 1", "(__r, rc.get())", exp, "rc_not_send"))
    # ---- non-spawning async macros: the same freedoms (the references are created outside: the macro's
    # `async move` block would otherwise move the referent itself into the future)
    for kind in ("join_async", "try_join_async"):
        tr = kind.startswith("try_")
        rdy = (lambda e: "futures::future::ok::<_, u8>(%s)" % e) if tr else (lambda e: "futures::future::ready(%s)" % e)
        mapv = (lambda f: "move |r: Result<_, u8>| r.map(%s)" % f) if tr else (lambda f: f)
        tup = (lambda *xs: "Ok((%s))" % ", ".join(xs)) if tr else (lambda *xs: "(%s)" % ", ".join(xs))
        T.append((kind, "let data = [1u32, 2, 3, 4]; let d = &data; let it = data.iter();", "%s |> %s, %s |> %s" % (rdy("d"), mapv("|d: &[u32; 4]| d.len()"), rdy("it"), mapv("|it: std::slice::Iter<u32>| it.sum::<u32>()")), "__r", tup("4", "10"), "async_shared_borrow"))
        T.append((kind, "let mut acc = 0u32; let a = &mut acc;", "%s |> %s, %s" % (rdy("a"), mapv("|a: &mut u32| { *a += 5; 1u32 }"), rdy("2u32")), "(__r, acc)", "(%s, 5)" % tup("1", "2"), "async_mut_borrow"))
        T.append((kind, "let rc = std::rc::Rc::new(std::cell::Cell::new(1u32)); let rc2 = rc.clone();", "%s |> %s, %s" % (rdy("rc2"), mapv("|r: std::rc::Rc<std::cell::Cell<u32>>| { r.set(r.get() + 1); r.get() }"), rdy("3u32")), "(__r, rc.get())", "(%s, 2)" % tup("2", "3"), "async_rc_not_send"))
        T.append((kind, "", "%s |> %s ~|> %s, %s" % (rdy("Tok::new()"), mapv("|t: Tok| t"), mapv("|t: Tok| { drop(t); 1u32 }"), rdy("2u32")), "__r", tup("1", "2"), "async_move_only"))
        T.append((kind, "let data = [10u32, 20]; let dr = &data;", "%s |> { let k = dr; %s }, %s" % (rdy("1u32"), mapv("move |v: u32| v + k[0]"), rdy("0u8")), "__r", tup("11", "0"), "async_borrowing_capture"))
    # ---- move-only values under all 12 macros (spawning ones need Send + 'static, which Tok is)
    for kind in ALL:
        tr = kind.startswith("try_")
        asy = "async" in kind
        if not asy:
            tup = (lambda *xs: "Some((%s))" % ", ".join(xs)) if tr else (lambda *xs: "(%s)" % ", ".join("Some(%s)" % x for x in xs))
            T.append((kind, "", "Some(Tok::new()) |> |t: Tok| t ~|> |t: Tok| { drop(t); 1u32 }, Some(Tok::new()) |> |t: Tok| { drop(t); 2u32 }", "__r", tup("1", "2"), "move_only_all_macros"))
        else:
            rdy = (lambda e: "futures::future::ok::<_, u8>(%s)" % e) if tr else (lambda e: "futures::future::ready(%s)" % e)
            mapv = (lambda f: "move |r: Result<_, u8>| r.map(%s)" % f) if tr else (lambda f: f)
            tup = (lambda *xs: "Ok((%s))" % ", ".join(xs)) if tr else (lambda *xs: "(%s)" % ", ".join(xs))
            T.append((kind, "", "%s |> %s ~|> %s, %s |> %s" % (rdy("Tok::new()"), mapv("|t: Tok| t"), mapv("|t: Tok| { drop(t); 1u32 }"), rdy("Tok::new()"), mapv("|t: Tok| { drop(t); 2u32 }")), "__r", tup("1", "2"), "move_only_all_macros"))
    # ---- the same freedoms in wide invocations (5, 8, 12 branches): whatever an expansion does differently for many
    # branches, the non-spawning macros still may not ask for Send / 'static / Clone
    for kind in ("join", "try_join", "join_async", "try_join_async"):
        tr = kind.startswith("try_")
        asy = "async" in kind
        for n in (5, 8, 12):
            rest = n - 3
            if not asy:
                wrap = (lambda e: "Some(%s)" % e)
                fmap = (lambda f: f)
                exp_items = ["2", "1", "1"] + [str(10 + i) for i in range(rest)]
                exp = ("Some((%s))" % ", ".join(exp_items)) if tr else ("(%s)" % ", ".join("Some(%s)" % x for x in exp_items))
                prel = "let rc = std::rc::Rc::new(std::cell::Cell::new(1u32)); let mut acc = 0u32; let a = &mut acc;"
            else:
                wrap = (lambda e: "futures::future::ok::<_, u8>(%s)" % e) if tr else (lambda e: "futures::future::ready(%s)" % e)
                fmap = (lambda f: "move |r: Result<_, u8>| r.map(%s)" % f) if tr else (lambda f: f)
                exp_items = ["2", "1", "1"] + [str(10 + i) for i in range(rest)]
                exp = ("Ok((%s))" % ", ".join(exp_items)) if tr else ("(%s)" % ", ".join(exp_items))
                prel = "let rc = std::rc::Rc::new(std::cell::Cell::new(1u32)); let rc2 = rc.clone(); let mut acc = 0u32; let a = &mut acc;"
            rcv = "rc2" if asy else "rc.clone()"
            brs = ["%s |> %s" % (wrap(rcv), fmap("|r: std::rc::Rc<std::cell::Cell<u32>>| { r.set(r.get() + 1); r.get() }")),
                   "%s |> %s" % (wrap("a"), fmap("|a: &mut u32| { *a += 5; 1u32 }")),
                   "%s |> %s ~|> %s" % (wrap("Tok::new()"), fmap("|t: Tok| t"), fmap("|t: Tok| { drop(t); 1u32 }"))]
            brs += [wrap("%du32" % (10 + i)) for i in range(rest)]
            T.append((kind, prel, ", ".join(brs), "(__r, rc.get(), acc)", "(%s, 2, 5)" % exp, "wide%d_not_send_mut_borrow_move_only" % n))
    # ---- closures written by the user keep the capture rules of the caller's edition (this crate is edition 2021: a closure
    # that reads one field of a struct does not capture the whole struct, so another field may stay mutably borrowed or be
    # moved out meanwhile) — for a closure operand of every operator kind
    for kind in ("join", "try_join"):
        tr = kind.startswith("try_")
        tup = (lambda *xs: "Some((%s))" % ", ".join(xs)) if tr else (lambda *xs: "(%s)" % ", ".join("Some(%s)" % x for x in xs))
        ops = [("map", "|> |v| v + ctx.base", "6"), ("and_then", "=> |v| Some(v + ctx.base)", "6"), ("filter", "?> |v| *v > ctx.base", "5"),
               ("inspect", "?? |_| { let _ = ctx.base; }", "5"), ("then", "-> |o: Option<u32>| o.map(|v| v + ctx.base)", "6"),
               ("or_else", "<= || Some(ctx.base)", "5"), ("inspect_move", "?? move |_| { let _ = ctx.base; }", "5")]
        for oname, op, val in ops:
            T.append((kind, "struct Ctx { base: u32, log: [u32; 2], tok: Tok } let mut ctx = Ctx { base: 1, log: [0; 2], tok: Tok::new() }; let l = &mut ctx.log; let t = ctx.tok;",
                      "Some(5u32) %s, Some(1u8)" % op, "{ l[0] = 9; drop(t); (__r, ctx.log[0]) }", "(%s, 9)" % tup(val, "1"), "disjoint_field_capture_%s" % oname))
    # ---- a block operand inside a `>>>` group may build a closure that can only be called once (it hands on a move-only
    # value): Option / Result combinators take FnOnce
    for kind in ("join", "try_join"):
        tr = kind.startswith("try_")
        tup = (lambda *xs: "Some((%s))" % ", ".join(xs)) if tr else (lambda *xs: "(%s)" % ", ".join("Some(%s)" % x for x in xs))
        for wname, wop in (("map", "|>"), ("and_then", "=>")):
            inner = "|> { let t = Tok::new(); move |v: u32| { drop(t); v + 1 } }"
            T.append((kind, "", "Some(Some(5u32)) %s >>> %s <<<, Some(1u8)" % (wop, inner), "__r",
                      tup("6" if wop == "=>" else "Some(6)", "1"), "fnonce_block_closure_in_%s_group" % wname))
    T += caller_stack_matrix()
    fns, entries = [], []
    for i, (kind, prelude, body, result, expected, tag) in enumerate(T):
        pid = first_id + i
        asy = "async" in kind
        if asy:
            m = "pub fn m_%d() -> String { %s let __s = { let __r = run_async_local(async { %s! { %s }.await }); dbg(%s) }; __s }" % (pid, prelude, kind, body, result)
        else:
            m = "pub fn m_%d() -> String { %s let __r = %s! { %s }; dbg(%s) }" % (pid, prelude, kind, body, result)
        r = "pub fn r_%d() -> String { String::from(%s) }" % (pid, rs(expected))
        fns.append(m + "\n" + r)
        entries.append("Twin { id: %d, kind: %s, m: m_%d, r: r_%d, srcs: &[], branches: &[(1, 2)], tags: %s, text: %s, reference: %s, max_id: 4 }" % (
            pid, rs(kind), pid, pid, rs("bounds,bounds:" + tag), rs(body), rs(expected)))
    return fns, entries, T


def caller_stack_matrix():
    """Systematic "branches may borrow, even mutably, from the caller's stack" programs for the sequential macros.
    (a) a user closure that touches a caller local, at nesting depth 0-2 of `>>>` wrappers (both wrapper operators at every
        level), under four operators, with four kinds of local (Copy counter, array, move-only value read, move-only value
        mutated); the local is observed after the macro;
    (b) a branch whose first value is a place expression (bare variable, parenthesized, field, index, deref) followed by a
        borrowing method (`..as_mut()`, `..as_ref()`, `..iter()`), over Copy and move-only contents; the place is observed after."""
    T = []

    def fmt(v):
        return "Some(%s)" % fmt(v[1]) if isinstance(v, tuple) else str(v)

    effects = [
        ("copy_counter", "let mut hits = 0u32;", "hits += 1;", "hits", "1"),
        ("array_log", "let mut log = [0u32; 2];", "log[1] += 7;", "log", "[0, 7]"),
        ("move_only_read", "struct Hold(u32); let hold = Hold(3);", "let _k = &hold;", "{ let Hold(k) = hold; k }", "3"),
        ("move_only_mut", "struct Hold(u32); let mut hold = Hold(3);", "hold.0 += 1;", "{ let Hold(k) = hold; k }", "4"),
    ]
    users = [
        ("map", lambda e: "|> |v| { %s v + 1 }" % e, 6),
        ("and_then", lambda e: "=> |v| { %s Some(v + 1) }" % e, 6),
        ("filter", lambda e: "?> |v| { %s *v > 0 }" % e, 5),
        ("then", lambda e: "-> |o: Option<u32>| { %s o }" % e, 5),
        # the callback of `??` sees the value by reference and may mutate what it captures (Option::inspect takes FnOnce)
        ("inspect", lambda e: "?? |o: &Option<u32>| { %s }" % e, 5),
    ]
    for kind in ("join", "try_join"):
        for depth in (0, 1, 2):
            for wraps in itertools.product(("|>", "=>"), repeat=depth):
                for uname, ufn, x in users:
                    for ename, prelude, stmt, after, after_exp in effects:
                        src = "5u32"
                        for _ in range(depth + 1):
                            src = "Some(%s)" % src
                        body = src + " " + " ".join("%s >>>" % w for w in wraps) + " " + ufn(stmt) + " <<<" * depth
                        val = ("S", x)
                        for w in reversed(wraps):
                            if w == "|>":
                                val = ("S", val)
                        if kind == "join":
                            exp = "(%s, Some(1))" % fmt(val)
                        else:
                            exp = "Some((%s, 1))" % fmt(val[1])
                        T.append((kind, prelude, body + ", Some(1u8)", "(__r, %s)" % after, "(%s, %s)" % (exp, after_exp),
                                  "stack_closure_d%d_%s_%s" % (depth, uname, ename)))
        heads = [
            ("bare", "let mut slot = %s;", "slot", "slot"),
            ("paren", "let mut slot = %s;", "(slot)", "slot"),
            ("field", "struct St<T> { slot: T } let mut st = St { slot: %s };", "st.slot", "st.slot"),
            ("index", "let mut slots = [%s, None];", "slots[0]", "slots[0]"),
            ("deref", "let mut slot0 = %s; let rs = &mut slot0;", "*rs", "slot0"),
            ("named_bare", "let mut slot = %s;", "let nm = slot", "slot"),
        ]
        contents = [
            ("copy", "", "Some(1u32)", {"as_mut": "..as_mut() |> |v| { *v += 41; *v }", "as_ref": "..as_ref() |> |v| *v + 1", "iter": "..iter() ..count() -> Some"},
             lambda place: place),
            ("move_only", "struct Hold(u32); ", "Some(Hold(1))", {"as_mut": "..as_mut() |> |h| { h.0 += 41; h.0 }", "as_ref": "..as_ref() |> |h| h.0 + 1", "iter": "..iter() ..count() -> Some"},
             lambda place: "%s.as_ref().map(|h| h.0)" % place),
        ]
        for hname, hprel, head, place in heads:
            for cname, cprel, init, actions, after in contents:
                for aname, act in actions.items():
                    bval = {"as_mut": 42, "as_ref": 2, "iter": 1}[aname]
                    aval = "Some(42)" if aname == "as_mut" else "Some(1)"
                    exp = "(Some(%d), Some(1))" % bval if kind == "join" else "Some((%d, 1))" % bval
                    T.append((kind, cprel + hprel % init, "%s %s, Some(1u8)" % (head, act), "(__r, %s)" % after(place), "(%s, %s)" % (exp, aval),
                              "stack_head_%s_%s_%s" % (hname, cname, aname)))
    return T


def write_crate(outdir, join_repo, vrt_path, tier, seed, nshards=16, tag="x", skip=()):
    import os
    os.makedirs(os.path.join(outdir, "src", "bin"), exist_ok=True)
    with open(os.path.join(outdir, "Cargo.toml"), "w") as f:
        f.write("""[package]
name = "c19_corpus"
version = "0.1.0"
edition = "2021"

[dependencies]
join = { path = "%s/join" }
vrt = { path = "%s" }
futures = "0.3"
tokio = { version = "1", features = ["rt", "rt-multi-thread", "time", "sync", "macros"] }

[profile.dev]
debug = 0
incremental = false
opt-level = 0

[profile.release]
debug = 0
incremental = false
opt-level = 2

[workspace]
""" % (join_repo, vrt_path))
    progs = noalloc_programs(tier, seed)
    items = []
    for p in progs:
        if p.id in skip:
            continue
        r = zoo.render_prog(p, mode="noalloc")
        if r is not None:
            items.append((p.id, r[0], r[1]))
    bf, be, T = bounds_programs(100000)
    for i, (f, e) in enumerate(zip(bf, be)):
        if 100000 + i in skip:
            continue
        items.append((100000 + i, f, e))
    wf, we = wide_programs(200000)
    for i, (f, e) in enumerate(zip(wf, we)):
        if 200000 + i in skip:
            continue
        items.append((200000 + i, f, e))
    shards = [[] for _ in range(nshards)]
    for i, it in enumerate(items):
        shards[i % nshards].append(it)
    for si, sh in enumerate(shards):
        src = ("// generated by gen/c19.py — do not edit\n#![allow(unused_imports, unused_mut, unused_variables, unused_parens, unused_braces, dead_code, clippy::all)]\n"
               "use join::*;\nuse vrt::zoo::*;\nuse vrt::tok::Tok;\n\n#[global_allocator]\nstatic ALLOC: vrt::alloc::Counting = vrt::alloc::Counting;\n\n" +
               "\n".join("// twin %d\n%s" % (i, f) for i, f, _ in sh) +
               "\n\npub static TWINS: &[Twin] = &[\n    " + ",\n    ".join(e for _, _, e in sh) + "\n];\n\nfn main() {\n    vrt::zoo::main(TWINS);\n}\n")
        with open(os.path.join(outdir, "src", "bin", "c19_%s_%02d.rs" % (tag, si)), "w") as f:
            f.write(src)
    return len(progs), len(T)


if __name__ == "__main__":
    import sys
    tier, seed, outdir, join_repo, vrt_path = sys.argv[1], int(sys.argv[2]), sys.argv[3], sys.argv[4], sys.argv[5]
    print(write_crate(outdir, join_repo, vrt_path, tier, seed))
