#!/usr/bin/env python3
"""Generators of DSL inputs for the site-E1 harness (lab): random chain structures with their
canonical structure string (round trip, C14), labelled invalid mutations (C15), marker programs
(C10), option permutations (C16), determinism workloads (C20)."""
import itertools
import random

# name, spelling(s), number of operands, operand kind, can be a wrapper
OPS = [
    ("Map", ["|>"], 1, "expr", True),
    ("Then", ["->"], 1, "expr", False),
    ("AndThen", ["=>"], 1, "expr", True),
    ("Or", ["<|"], 1, "expr", False),
    ("OrElse", ["<="], 1, "expr", True),
    ("Dot", [">.", ".."], 1, "member", False),
    ("MapErr", ["!>"], 1, "expr", True),
    ("Chain", [">@>"], 1, "expr", False),
    ("Inspect", ["??"], 1, "expr", True),
    ("Filter", ["?>"], 1, "expr", True),
    ("FindMap", ["?|>@"], 1, "expr", True),
    ("FilterMap", ["?|>"], 1, "expr", True),
    ("Enumerate", ["|n>"], 0, None, False),
    ("Partition", ["?&!>"], 1, "expr", True),
    ("Flatten", ["^^>"], 0, None, False),
    ("Fold", ["^@"], 2, "expr", False),
    ("TryFold", ["?^@"], 2, "expr", False),
    ("Find", ["?@"], 1, "expr", True),
    ("Zip", [">^>"], 1, "expr", False),
    ("Unzip", ["<->"], (0, 4), "type", False),
    ("Collect", ["=>[]"], (0, 1), "type", False),
]
OP = {o[0]: o for o in OPS}
WRAPPERS = [o[0] for o in OPS if o[4]]

# adversarial operand spellings; validated by lab's independent splitter before use
EXPR_POOL = [
    "f", "|v| v + 1", "|v: u32| -> u32 { v + 1 }", "|a, b| a + b", "move |v| v", "|_| None::<u8>",
    "|v| n > *v", "|n| n >> 1", "|n| n >= 2", "move |n| n > 3",
    "Some(1)", "Ok::<_, ()>(2)", "foo::<u8, Vec<Vec<u8>>>", "Vec::<Vec<Vec<u8>>>::new()", "(|v| v)",
    "(a, b)", "{ let x = 1; move |v| v + x }", "{ y }", "match v { Some(x) => x, _ => 0 }",
    "|v| match v { 1 => 2, _ => 3 }", "|v| if v > 1 { v } else { 0 }", "join! { a |> b }",
    "try_join! { Some(1) => |v| Some(v), Some(2) ~|> |v| v }", "\"|> => ?? ~\"", "'~'", "b\"<<<\"",
    "|a| a | 1", "|a| |b| a + b", "'l: loop { break 'l 1; }", "vec![1, 2, 3].into_iter()",
    "x.y.z", "x[1..3].to_vec()", "(0..3)", "a || b", "a && b || c", "P { x: 1, ..base }", "[1, 2][0]", "[f, g][1]", "[|v| v + 1, |v| v + 2][0]", "[a, b].len()", "[[1u8; 2]; 2]", "&mut acc", "*ptr", "!flag",
    "-1", "a as u64", "|v| v as u8 as u32", "async { 1 }", "async move { x.await }", "|v| async move { v }",
    "unsafe { g() }", "|v| { v }", "Box::new(|v| v) as Box<dyn Fn(u8) -> u8>", "<u8 as Into<u32>>::into",
    "r#\"->\"#", "1.0e3", "0x1f", "core::convert::identity", "|(a, b)| a", "|&v| v", "|v| v.0",
    "|v| -> Result<u8, ()> { Ok(v) }", "x?.y", "f(a, b)(c)", "S { a: 1, b: 2 }", "(S { a: 1 })",
    "|v| S { a: v }", "return_closure()", "|v| v >> 1", "|v| v > 1", "|v| 1 < v", "|v| v >= 1 && v <= 9",
    "|s| s.map", "then", "x.and_then", "|and_then| and_then", "opt.map", "|v| v..=9", "x?", "a()?", "foo.bar(1)?", "|v| v?", "x?.y?", "|v| -v", "|v| !v", "a => b", "|v| v as Vec<u8>", "a -> b", "a |> b", "0..3", "..", "a, b",
]
MEMBER_POOL = ["len()", "0", "unwrap_or(3)", "iter().map(|v| v + 1)", "foo::<Vec<Vec<u8>>>(a, b)", "x", "into_iter()", "and_then(|v| Some(v))", "1.0", "clone().len()", "unwrap_or_else(|| 7)", "max(1, 2)", "await",
               # a member access whose operand goes on with something that binds weaker than a method call (fixed finding
               # 66989f9: `s ..x as u64 ..pow(2)` used to expand to `s.x as u64.pow(2)`)
               "x as u64", "len() + 1", "0 as u8 as u32", "y.z * 2", "count() as u32 - 1"]
TYPE_POOL = ["Vec<_>", "Vec<Vec<Vec<u8>>>", "std::collections::HashMap<u8, Vec<u8>>", "(u8, u8)", "[u8; 3]", "Box<dyn Fn(u8) -> u8>", "_", "String", "&'static str", "<T as Tr>::Out", "fn(u8) -> u8", "Option<fn() -> u8>", "impl Iterator<Item = u8>"]
HANDLER_POOL = ["|a, b| a + b", "f", "|a| async move { a }", "{ let k = 1; move |a| a + k }", "h::<u8>", "|a, b, c| (a, b, c)"]
INITIAL_POOL = [e for e in EXPR_POOL if not e.startswith("|") and not e.startswith("move")]


def esc(s):
    return s.replace("\\", "\\\\").replace("\t", "\\t").replace("\n", "\\n")


def nows(s):
    return "".join(s.split())


class Member:
    def __init__(self, name, spelling, operands, deferred=False, wrap=False):
        self.name, self.spelling, self.operands, self.deferred, self.wrap = name, spelling, operands, deferred, wrap

    def canon(self):
        s = self.name + ("~" if self.deferred else "") + (">>>" if self.wrap else "")
        return s + "(" + ("" if self.wrap else ",".join(nows(o) for o in self.operands)) + ")"

    def render(self, ws):
        s = ("~" if self.deferred else "") + self.spelling
        if self.wrap:
            return s + ws() + ">>>"
        if self.operands:
            s += ws() + ("," + ws()).join(self.operands)
        return s


class Branch:
    def __init__(self):
        self.name = None
        self.mut = False
        self.initial = None
        self.members = []
        self.omit_comma = False

    def canon(self):
        s = "B:"
        if self.name:
            s += "let" + ("mut" if self.mut else "") + self.name + "="
        s += "Initial(" + nows(self.initial) + ")"
        return s + "".join(m.canon() for m in self.members)

    def render(self, ws):
        s = ""
        if self.name:
            s += "let " + ("mut " if self.mut else "") + self.name + " = "
        s += self.initial
        for m in self.members:
            s += ws() + m.render(ws)
        return s

    def ends_with_block(self):
        last = self.members[-1].operands[-1] if self.members and self.members[-1].operands and not self.members[-1].wrap else (self.initial if not self.members else None)
        return bool(last) and last.strip().startswith("{") and last.strip().endswith("}")


class Input:
    def __init__(self):
        self.options = []  # list of (name, text)
        self.branches = []
        self.handler = None  # (kind, text, position)
        self.trailing_comma = False

    def canon(self):
        parts = []
        order = ["futures_crate_path", "custom_joiner", "transpose_results", "lazy_branches"]
        for n in order:
            for (k, v) in self.options:
                if k == n:
                    parts.append("O:%s(%s)" % (k, nows(v)))
        parts += [b.canon() for b in self.branches]
        if self.handler:
            parts.append("H:%s(%s)" % (self.handler[0], nows(self.handler[1])))
        return ";;".join(parts)

    def render(self, ws=lambda: " "):
        s = "".join("%s(%s)%s" % (k, v, ws()) for k, v in self.options)
        items = [("b", b) for b in self.branches]
        if self.handler:
            items.insert(min(self.handler[2], len(items)), ("h", self.handler))
        out = []
        for i, (kind, it) in enumerate(items):
            last = i == len(items) - 1
            if kind == "b":
                t = it.render(ws)
                next_is_handler = (not last) and items[i + 1][0] == "h"
                if it.omit_comma and it.ends_with_block() and (next_is_handler or last):
                    pass  # the comma is optional after a block operand (only a handler or the end may follow)
                elif not last or self.trailing_comma:
                    t += ","
                out.append(t)
            else:
                t = "%s => %s" % (it[0], it[1])
                if not last or self.trailing_comma:
                    t += ","
                out.append(t)
        return s + ws().join(out)


class Gen:
    def __init__(self, rng, pools):
        self.rng = rng
        self.expr, self.member, self.type, self.handler, self.initial = pools

    def operand(self, kind):
        pool = {"expr": self.expr, "member": self.member, "type": self.type}[kind]
        return self.rng.choice(pool)

    def member_for(self, name, deferred=False, wrap=False, spelling=None, operand=None):
        _, spellings, n, kind, _ = OP[name]
        sp = spelling or self.rng.choice(spellings)
        if wrap:
            return Member(name, sp, [], deferred, True)
        if isinstance(n, tuple):
            n = self.rng.choice(n)
        ops = [operand if (operand is not None and i == 0) else self.operand(kind) for i in range(n)]
        return Member(name, sp, ops, deferred, False)

    def chain(self, length, allow_wrap=True):
        """Random member list with balanced wrappers per step."""
        rng = self.rng
        ms = []
        open_w = 0
        for i in range(length):
            deferred = rng.random() < 0.25
            if deferred:
                open_w = 0  # wrappers close implicitly at a step boundary
            r = rng.random()
            if open_w > 0 and r < 0.2 and not deferred:
                ms.append(Member("UNWRAP", "<<<", [], False, False))
                open_w -= 1
                continue
            if allow_wrap and r > 0.85:
                ms.append(self.member_for(rng.choice(WRAPPERS), deferred, wrap=True))
                open_w += 1
                continue
            ms.append(self.member_for(rng.choice(OPS)[0], deferred))
        return ms

    def fix_q(self, initial, members):
        """Operands ending in `?` must not be followed by an operator that starts with `?`."""
        def next_starts_q(i):
            return i + 1 < len(members) and not members[i + 1].deferred and q_conflict(members[i + 1].spelling)
        safe = [e for e in self.expr if e not in QOPERANDS]
        safe_init = [e for e in self.initial if e not in QOPERANDS]
        if initial in QOPERANDS and members and not members[0].deferred and q_conflict(members[0].spelling):
            initial = self.rng.choice(safe_init)
        for i, m in enumerate(members):
            if m.operands and m.operands[-1] in QOPERANDS and next_starts_q(i):
                m.operands[-1] = self.rng.choice(safe)
        return initial

    def branch(self, length, named=False):
        b = Branch()
        if named:
            b.name = self.rng.choice(["a", "res", "x1", "value"])
            b.mut = self.rng.random() < 0.3
        b.members = self.chain(length)
        for _ in range(200):
            b.initial = self.rng.choice(self.initial)
            # (`let name = <expr>` used to be parsed as a Rust `let` expression, whose value may not be a bare struct literal
            # or a `||` / `&&` expression; such initial values were left out here until fix b5e5525 of /repo — they are
            # ordinary initial values now)
            if self.fix_q(b.initial, b.members) != b.initial:
                continue
            break
        # a branch whose last operand is a block may omit the comma in front of a handler
        b.omit_comma = self.rng.random() < 0.5
        return b

    @staticmethod
    def struct_literal(e):
        import re
        return bool(re.match(r"^[A-Za-z_:][\w:]*\s*\{", e.strip()))

    def input(self, nbranches, maxlen, handler=None, options=False):
        inp = Input()
        for _ in range(nbranches):
            inp.branches.append(self.branch(self.rng.randint(0, maxlen), self.rng.random() < 0.2))
        if handler:
            inp.handler = (handler, self.rng.choice(self.handler), self.rng.randint(0, nbranches))
        inp.trailing_comma = self.rng.random() < 0.3
        if options:
            opts = [("futures_crate_path", "::my::futures"), ("custom_joiner", self.rng.choice(["my_join!", "::a::b::joiner", "|a, b| (a, b)"])),
                    ("transpose_results", self.rng.choice(["true", "false"])), ("lazy_branches", self.rng.choice(["true", "false"]))]
            self.rng.shuffle(opts)
            inp.options = opts[: self.rng.randint(0, 4)]
        return inp


def ws_maker(rng, wild):
    if not wild:
        return lambda: " "
    return lambda: rng.choice([" ", " ", "  ", "\n", "\n    ", " \t "])


def pool_candidates():
    rows = []
    for i, e in enumerate(EXPR_POOL):
        rows.append(("e%d" % i, "expr", e))
    for i, e in enumerate(MEMBER_POOL):
        rows.append(("m%d" % i, "member", e))
    for i, e in enumerate(TYPE_POOL):
        rows.append(("t%d" % i, "type", e))
    for i, e in enumerate(HANDLER_POOL):
        rows.append(("h%d" % i, "expr", e))
    return rows


QOPERANDS = set()


def q_conflict(spelling):
    """Would a `?` in front of this operator spelling form another operator (`?>`, `??`, `?|>`, `?^@`, ...)?"""
    return spelling[0] in "?>" or spelling in ("|>", "^@")


def pools_from(admitted):
    adm = set(a.split(":")[0] for a in admitted)
    for a in admitted:
        if a.endswith(":q") and a.startswith("e"):
            QOPERANDS.add(EXPR_POOL[int(a.split(":")[0][1:])])
    expr = [e for i, e in enumerate(EXPR_POOL) if "e%d" % i in adm]
    member = [e for i, e in enumerate(MEMBER_POOL) if "m%d" % i in adm]
    typ = [e for i, e in enumerate(TYPE_POOL) if "t%d" % i in adm]
    handler = [e for i, e in enumerate(HANDLER_POOL) if "h%d" % i in adm]
    # a bare `map` / `then` / `and_then` in front of `=>` at the start of a branch *is* a handler
    initial = [e for e in expr if not e.startswith("|") and not e.startswith("move") and e not in ("map", "then", "and_then")]
    return expr, member, typ, handler, initial


# ------------------------------------------------------------------------------------------
# C14: round-trip cases


def rt_cases(rng, pools, tier):
    g = Gen(rng, pools)
    cases = []
    names = [o[0] for o in OPS] + ["UNWRAP"]
    # (i) all ordered operator pairs x ~ flags x >>> where legal
    for a, b in itertools.product(names, repeat=2):
        for da, db in itertools.product([False, True], repeat=2):
            for wa in ([False, True] if a in WRAPPERS else [False]):
                for wb in ([False, True] if b in WRAPPERS else [False]):
                    br = Branch()
                    br.initial = rng.choice(g.initial)
                    ms = []
                    open_w = 0
                    ok = True
                    for nm, d, w in ((a, da, wa), (b, db, wb)):
                        if d:
                            open_w = 0
                        if nm == "UNWRAP":
                            if open_w == 0:
                                # needs an open wrapper in the same step: open one first
                                if d:
                                    ok = False
                                    break
                                ms.append(g.member_for("Map", False, wrap=True))
                                open_w += 1
                            ms.append(Member("UNWRAP", "<<<", [], False, False))
                            open_w -= 1
                            if d:
                                ok = False
                        else:
                            for sp in [None]:
                                ms.append(g.member_for(nm, d, wrap=w))
                            if w:
                                open_w += 1
                    if not ok:
                        continue
                    br.members = ms
                    br.initial = g.fix_q(br.initial, br.members)
                    inp = Input()
                    inp.branches = [br]
                    cases.append(inp)
    # both spellings of Dot next to every operator
    for nm in names:
        for sp in (">.", ".."):
            if nm == "UNWRAP":
                continue
            br = Branch()
            br.initial = rng.choice(g.initial)
            br.members = [g.member_for(nm), g.member_for("Dot", spelling=sp), g.member_for(nm, True)]
            br.initial = g.fix_q(br.initial, br.members)
            inp = Input()
            inp.branches = [br]
            cases.append(inp)
    # (ii) every operator x every pool operand
    for o in OPS:
        name, _, n, kind, _ = o
        if not kind:
            continue
        pool = {"expr": g.expr, "member": g.member, "type": g.type}[kind]
        for opnd in pool:
            br = Branch()
            br.initial = rng.choice(g.initial)
            m = g.member_for(name, rng.random() < 0.3, operand=opnd)
            if not m.operands:
                # optional-operand operators: force the operand form
                _, spellings, nn, kind2, _ = OP[name]
                cnt = nn[1] if isinstance(nn, tuple) else nn
                m = Member(name, spellings[0], [opnd] + [g.operand(kind2) for _ in range(cnt - 1)], m.deferred, False)
            follower_ops = [o for o in OPS if not any(q_conflict(sp) for sp in o[1])] if opnd in QOPERANDS else OPS
            br.members = [m, g.member_for(rng.choice(follower_ops)[0])]
            br.initial = g.fix_q(br.initial, br.members)
            inp = Input()
            inp.branches = [br]
            cases.append(inp)
            if opnd in QOPERANDS:
                # `?`-terminated operand in front of a comma and of a handler
                br2 = Branch()
                br2.initial = rng.choice([e for e in g.initial if e not in QOPERANDS])
                br2.members = [Member(m.name, m.spelling, list(m.operands), m.deferred, False)]
                inp2 = Input()
                inp2.branches = [br2, g.branch(1)]
                inp2.handler = ("map", rng.choice(g.handler), 1)
                cases.append(inp2)
    # identifiers that look like handler keywords at the end of an operand, directly in front of `=>` / `=>[]`
    for opnd in [e for e in g.expr if e.split(".")[-1].split(" ")[-1] in ("map", "then", "and_then")]:
        for follower in ("AndThen", "Collect"):
            for deferred in (False, True):
                br = Branch()
                br.initial = rng.choice([e for e in g.initial if e not in QOPERANDS])
                br.members = [Member("Map", "|>", [opnd], False, False), g.member_for(follower, deferred)]
                inp = Input()
                inp.branches = [br]
                cases.append(inp)
        if opnd in g.initial:
            br = Branch()
            br.initial = opnd
            br.members = [g.member_for("AndThen")]
            inp = Input()
            inp.branches = [br, g.branch(1)]
            cases.append(inp)
    for init in g.initial:
        br = Branch()
        br.initial = init
        br.members = [g.member_for(rng.choice([o for o in OPS if not any(q_conflict(sp) for sp in o[1])] if init in QOPERANDS else OPS)[0])]
        inp = Input()
        inp.branches = [br]
        cases.append(inp)
    # (ii') all ordered operator triples (thorough), a seeded sample of 1500 (quick)
    triples = list(itertools.product([o[0] for o in OPS], repeat=3))
    if tier == "quick":
        rng.shuffle(triples)
        triples = triples[:1500]
    for (a, b, c) in triples:
        br = Branch()
        br.members = [g.member_for(a, rng.random() < 0.2), g.member_for(b, rng.random() < 0.2), g.member_for(c, rng.random() < 0.2)]
        for _ in range(50):
            br.initial = rng.choice(g.initial)
            if g.fix_q(br.initial, br.members) == br.initial:
                break
        inp = Input()
        inp.branches = [br]
        cases.append(inp)
    # (iii) random chains
    nrand = 6000 if tier == "quick" else 60000
    for i in range(nrand):
        handler = rng.choice([None, None, "map", "then", "and_then"])
        inp = g.input(rng.randint(1, 6), rng.choice([3, 8, 30]), handler, options=rng.random() < 0.3)
        cases.append(inp)
    rows = []
    for i, inp in enumerate(cases):
        ws = ws_maker(rng, i % 3 == 2)
        rows.append(("r%d" % i, inp.render(ws), inp.canon()))
    # (v) the same structures with operands that reach the macro as fragments of a user macro_rules (`$e:expr`,
    # `$t:ty`): the proc macro then sees a None-delimited group instead of the operand's own tokens. `__g!(..)` is
    # turned into such a group by lab before parsing; the expected structure is that of the plain spelling
    import copy
    step = 3 if tier == "quick" else 1
    for i, inp in enumerate(cases[::step]):
        gi = copy.deepcopy(inp)
        changed = False
        for b in gi.branches:
            if rng.random() < 0.5:
                b.initial = "__g!(%s)" % b.initial
                changed = True
            for m in b.members:
                if m.wrap or not m.operands or m.name not in OP or OP[m.name][3] not in ("expr", "type"):
                    continue
                for k in range(len(m.operands)):
                    if rng.random() < 0.6:
                        m.operands[k] = "__g!(%s)" % m.operands[k]
                        changed = True
        if gi.handler and rng.random() < 0.7:
            gi.handler = (gi.handler[0], "__g!(%s)" % gi.handler[1], gi.handler[2])
            changed = True
        if changed:
            for b in gi.branches:
                b.omit_comma = False
            rows.append(("G%d" % i, gi.render(lambda: " "), inp.canon()))
    return rows


# ------------------------------------------------------------------------------------------
# C15: totality cases (valid, labelled invalid, unlabelled random edits) under all 8 configs

VOCAB = ["|>", "=>", "?>", "..", ">.", "->", "<|", "<=", "!>", "=>[]", ">@>", "?|>@", "?|>", "|n>", "?&!>", "^^>", "^@", "?^@", "?@", ">^>",
         "<->", "??", "<<<", ">>>", "~", ",", "map =>", "then =>", "and_then =>", "let a =", "let (a, b) =", "let mut x =", "f", "|v| v", "Some(1)",
         "{ x }", "(a, b)", "[1]", "Vec<_>", "custom_joiner(j!)", "lazy_branches(true)", "transpose_results(false)", "futures_crate_path(::f)", "0", "x.y()",
         "len()", ";", "=", ">", "<", "|", "?", "@", "^", "!", "&", ".", "-", "n", "::", "'a", "\"s\"", "#", "$", "async", "move", "match x { _ => 1 }"]


def handler_ok(handler, cfg):
    if handler is None:
        return True
    is_try = cfg & 1
    return (handler == "then") != bool(is_try)


def total_cases(rng, pools, tier):
    g = Gen(rng, pools)
    rows = []
    n = 0

    def add(label, text, cfgs=None):
        nonlocal n
        for cfg in (cfgs if cfgs is not None else range(8)):
            rows.append(("t%d" % n, str(cfg), label, text))
            n += 1

    nvalid = 500 if tier == "quick" else 4000
    for i in range(nvalid):
        handler = rng.choice([None, None, "map", "then", "and_then"])
        opts = rng.random() < 0.3
        inp = g.input(rng.randint(1, 5), rng.choice([2, 6, 12]), handler, options=opts)
        text = inp.render()
        for cfg in range(8):
            has_fcp = any(k == "futures_crate_path" for k, _ in inp.options)
            valid_cfg = handler_ok(handler, cfg) and (not has_fcp or cfg & 2)
            add("V" if valid_cfg else "I:config", text, [cfg])
        # ---- labelled mutations of this valid structure
        cfgs = [rng.randrange(8), rng.randrange(8)]
        base = inp
        # empty branch: drop all tokens of one branch
        parts = [b.render(lambda: " ") for b in base.branches]
        j = rng.randrange(len(parts))
        # an empty branch is one followed by a comma: in the middle or in front (an empty tail is just a
        # trailing comma, which is legal)
        if j == len(parts) - 1:
            mutated = [""] + parts
        else:
            mutated = parts[:j] + [""] + parts[j + 1:]
        add("I:empty_branch", " , ".join(mutated), cfgs)
        # no branch at all (options / handler only)
        add("I:no_branch", "".join("%s(%s) " % kv for kv in base.options) + ("%s => %s" % (base.handler[0], base.handler[1]) if base.handler else ""), cfgs)
        # `<<<` without a matching `>>>` in the same step
        b0 = base.branches[0]
        clean = [m for m in b0.members if not m.wrap and m.name != "UNWRAP"]
        if True:
            br = Branch()
            br.initial = b0.initial
            k = rng.randint(0, len(clean))
            br.members = clean[:k] + [Member("UNWRAP", "<<<", [], False, False)] + clean[k:]
            add("I:unbalanced_unwrap", br.render(lambda: " "), cfgs)
            # across a step: wrapper opened in step k, `<<<` after a `~`
            br2 = Branch()
            br2.initial = b0.initial
            br2.members = [g.member_for(rng.choice(WRAPPERS), False, wrap=True), g.member_for("Map"), g.member_for("Map", True), Member("UNWRAP", "<<<", [], False, False)] + clean[:2]
            add("I:unwrap_across_step", br2.render(lambda: " "), cfgs)
            br3 = Branch()
            br3.initial = b0.initial
            br3.members = [g.member_for(rng.choice(WRAPPERS), False, wrap=True), Member("UNWRAP", "<<<", [], True, False)]
            add("I:unwrap_across_step", br3.render(lambda: " "), cfgs)
        # `>>>` after a non-wrapper operator
        nonw = [o[0] for o in OPS if not o[4]]
        nm = rng.choice(nonw)
        add("I:wrap_after_non_wrapper", b0.initial + " " + OP[nm][1][0] + " >>> |> f", cfgs)
        # `>>>` combined with `<<<`
        add("I:wrap_and_unwrap", b0.initial + " |> >>> |> f <<< >>> |> g", cfgs)
        # non-identifier `let` pattern
        # (keywords: syn takes any word for the name of an identifier pattern — fixed finding: `let mut move = ..`)
        # (a name with a subpattern — fixed finding e698df0: `let x @ 1 = ..`)
        pat = rng.choice(["(a, b)", "S { a }", "Some(x)", "[a, b]", "_", "move", "mut fn", "type", "mut match", "self", "ref mut loop", "x @ 1", "mut y @ Some(_)", "z @ _"])
        add("I:let_pattern", "let %s = %s |> f" % (pat, b0.initial), cfgs)
        # a `~` that defers nothing: in front of a `,`, of a handler, at the end (fixed finding 675249b: used to be dropped)
        tail_b = g.branch(2).render(lambda: " ")
        add("I:stray_tilde", rng.choice(["%s ~, %s" % (b0.render(lambda: " "), tail_b), "%s ~" % b0.render(lambda: " "), "%s ~ map => |a| a" % b0.render(lambda: " "),
                                          "%s, %s ~ then => h" % (tail_b, b0.render(lambda: " ")), "%s ~ ~ |> f" % b0.initial]), cfgs)
        # a `~` in front of an operator look-alike inside an operand that is not complete yet (fixed finding 990902b: the `~`
        # used to be dropped and the input accepted); `~` is no Rust operator, so no such operand is an expression
        add("I:tilde_inside_operand", rng.choice(["%s |> |v| ~-> u8 { v }", "%s |> a < ~..b", "%s => |v: u8| ~-> Option<u8> { Some(v) } |> g", "%s ?> |v| v as ~-> u8 == 1",
                                                  "%s |> foo::<u8 ~=> 2>", "%s -> |v| ~-> u8 { v } ~|> h", "%s |> |v| v < ~<| 3"]) % b0.initial, cfgs)
        # a `..` / `>.` operand that cannot stand after a dot (fixed finding 1cc49f7: used to panic inside a wrapper)
        bad = rng.choice(["{ 1 }", "|v| v", '"s"', "(a)", "[1]", "match x { _ => 1 }", "-1", "&x", "'l: { 2 }", "move || 1", "!b", "*p", "if c { a } else { b }"])
        dot = rng.choice(["..", ">."])
        add("I:non_member_dot", "%s %s %s" % (b0.initial, dot, bad), cfgs)
        add("I:non_member_dot", "%s %s >>> %s %s %s" % (b0.initial, rng.choice(["|>", "=>", "?>", "??", "<=", "!>"]), rng.choice(["|> f", "", "~=> g"]), dot, bad), cfgs)
        # duplicated options: same and different values, every value order
        for (k, v, v2) in [("custom_joiner", "j!", "k!"), ("custom_joiner", "j!", "j!"), ("lazy_branches", "true", "true"), ("lazy_branches", "false", "true"),
                           ("lazy_branches", "true", "false"), ("lazy_branches", "false", "false"), ("transpose_results", "false", "false"),
                           ("transpose_results", "false", "true"), ("transpose_results", "true", "false"), ("transpose_results", "true", "true"),
                           ("futures_crate_path", "::f", "::f"), ("futures_crate_path", "::f", "::g")]:
            others = [kv for kv in base.options if kv[0] != k]
            pos = sorted(rng.sample(range(len(others) + 2), 2))
            seq = list(others)
            seq.insert(pos[0], (k, v))
            seq.insert(pos[1], (k, v2))
            add("I:dup_option", "".join("%s(%s) " % kv for kv in seq) + base.branches[0].render(lambda: " "), [2 | rng.randrange(2) | 4 * rng.randrange(2)])
        # two handlers
        h1, h2 = rng.choice(["map", "and_then", "then"]), rng.choice(["map", "and_then", "then"])
        add("I:two_handlers", "%s, %s => f, %s => g" % (b0.render(lambda: " "), h1, h2), cfgs)
        # two handlers in every pair of positions among the branches (also in front of all of them)
        items = [b.render(lambda: " ") for b in base.branches[:3]]
        slots = list(range(len(items) + 1))
        i1 = rng.choice(slots)
        i2 = rng.choice(slots)
        seq = list(items)
        for pos, txt in sorted([(i1, "%s => f" % h1), (i2, "%s => g" % h2)], key=lambda x: -x[0]):
            seq.insert(pos, txt)
        add("I:two_handlers", ", ".join(seq), cfgs)
        add("I:two_handlers", "%s => f, %s, %s => g" % (h1, ", ".join(items), h2), cfgs)
        add("I:two_handlers", "%s => f, %s => g, %s" % (h1, h2, ", ".join(items)), cfgs)
    # ---- unlabelled: every single-token deletion / duplication / swap of some valid inputs
    nsys = 40 if tier == "quick" else 400
    for i in range(nsys):
        inp = g.input(rng.randint(1, 3), rng.choice([2, 5]), rng.choice([None, "map", "then"]), options=rng.random() < 0.3)
        toks = inp.render().split(" ")
        cfg = rng.randrange(8)
        for pos in range(len(toks)):
            add("U", " ".join(toks[:pos] + toks[pos + 1:]), [cfg])
            add("U", " ".join(toks[:pos] + [toks[pos]] + toks[pos:]), [cfg])
            if pos + 1 < len(toks):
                add("U", " ".join(toks[:pos] + [toks[pos + 1], toks[pos]] + toks[pos + 2:]), [cfg])
    # ---- labelled: an operator that takes no operand followed by a stray operand; an operator squeezed between an
    # operand of a multi-operand operator and the `,` that separates it from the next operand
    nl = 60 if tier == "quick" else 600
    for i in range(nl):
        b0 = g.branch(rng.choice([0, 2, 4]))
        rest = ", ".join(g.branch(2).render(lambda: " ") for _ in range(rng.randint(0, 2)))
        tail = (", " + rest if rest else "") + rng.choice(["", "", ", map => |a| a", ", then => |a| a"])
        stray = rng.choice(["junk", "0", "|v| v", "f(1)", "{ x }", "Some(1)", "x.y"])
        nullary = rng.choice(["^^>", "|n>", "=> >>> |> f <<<", "|> >>> <<<"])
        cont = rng.choice(["", " |> g", " ~-> h"])
        add("I:operand_after_nullary", "%s %s %s%s%s" % (b0.render(lambda: " "), nullary, stray, cont, tail), [rng.randrange(8)])
        squeezed = rng.choice(["|>", "<<<", "~=> >>>", "??", "=>", "^^>", "~|n>", "->", "<|", ">>>"])
        multi = rng.choice(["^@ 0 %s , |a, v| a + v", "?^@ 0 %s , |a, v| Some(a + v)", "<-> A, B %s , Vec<A>, Vec<B>", "<-> A %s , B, Vec<A>, Vec<B>", "<-> A, B, Vec<A> %s , Vec<B>"]) % squeezed
        add("I:operator_in_operand_list", "%s %s%s%s" % (b0.render(lambda: " "), multi, cont, tail), [rng.randrange(8)])
    # ---- conservation: inputs whose every user expression carries a marker identifier, mutated by random token edits;
    # whatever is still accepted must contain each marker exactly as often as the input does (lab total checks it)
    nm = 1500 if tier == "quick" else 15000
    mrows = marker_cases(rng, pools, "quick")
    for i in range(nm):
        base = mrows[rng.randrange(len(mrows))][2].split(" ")
        for _ in range(rng.randint(1, 2)):
            pos = rng.randint(0, len(base))
            r = rng.random()
            if r < 0.3 and base:
                del base[min(pos, len(base) - 1)]
            elif r < 0.6:
                base.insert(pos, rng.choice(["__m9%d" % rng.randint(0, 99), "__m9%d(1)" % rng.randint(0, 99), "|v| __m9%d(v)" % rng.randint(0, 99)]))
            elif r < 0.85:
                base.insert(pos, rng.choice(VOCAB))
            elif base:
                q = min(pos, len(base) - 1)
                base[q], base[q - 1] = base[q - 1], base[q]
        add("U", " ".join(base), [rng.randrange(8)])
    # ---- valid structures whose operands reach the macro as macro_rules fragments (None-delimited groups; `__g!(..)` is
    # turned into one by lab): same outcome classes as the plain spelling
    ng = 300 if tier == "quick" else 3000
    for i in range(ng):
        handler = rng.choice([None, None, "map", "then", "and_then"])
        inp = g.input(rng.randint(1, 4), rng.choice([2, 6, 12]), handler, options=rng.random() < 0.2)
        for b in inp.branches:
            if rng.random() < 0.5:
                b.initial = "__g!(%s)" % b.initial
            for m in b.members:
                if m.wrap or not m.operands or m.name not in OP or OP[m.name][3] not in ("expr", "type"):
                    continue
                m.operands = [("__g!(%s)" % o) if rng.random() < 0.6 else o for o in m.operands]
            b.omit_comma = False
        if inp.handler and rng.random() < 0.7:
            inp.handler = (inp.handler[0], "__g!(%s)" % inp.handler[1], inp.handler[2])
        text = inp.render()
        for cfg in range(8):
            has_fcp = any(k == "futures_crate_path" for k, _ in inp.options)
            valid_cfg = handler_ok(handler, cfg) and (not has_fcp or cfg & 2)
            add("V" if valid_cfg else "I:config", text, [cfg])
    # ---- an identifier of the caller that is spelled like an option (or like a handler keyword) and is not followed by what the
    # option syntax needs: a diagnostic or a branch, in any case an answer
    for k, head in enumerate(["transpose_results", "custom_joiner", "futures_crate_path", "lazy_branches", "map", "then", "and_then"]):
        for tail in ("..len()", "|> f", ", b", "-> g, c", ""):
            add("U", "%s %s" % (head, tail), [k % 8])
            add("U", "lazy_branches(true) %s %s" % (head, tail), [(k + 3) % 8])
            add("U", "a |> f, %s %s" % (head, tail), [(k + 5) % 8])
    # ---- unlabelled: random token soups and random edits of valid inputs
    nsoup = 3000 if tier == "quick" else 40000
    for i in range(nsoup):
        k = rng.randint(1, 14)
        toks = [rng.choice(VOCAB) for _ in range(k)]
        if rng.random() < 0.5:
            inp = g.input(rng.randint(1, 3), 5, rng.choice([None, "map", "then"]))
            base = inp.render().split(" ")
            for _ in range(rng.randint(1, 3)):
                pos = rng.randint(0, len(base))
                r = rng.random()
                if r < 0.4 and base:
                    del base[min(pos, len(base) - 1)]
                elif r < 0.8:
                    base.insert(pos, rng.choice(VOCAB))
                elif base:
                    base[min(pos, len(base) - 1)] = rng.choice(VOCAB)
            toks = base
        add("U", " ".join(toks), [rng.randrange(8)])
    return rows


# ------------------------------------------------------------------------------------------
# C10 (E1): marker programs — every user expression carries a unique identifier


def marker_cases(rng, pools, tier):
    rows = []
    n = 800 if tier == "quick" else 8000
    for i in range(n):
        counter = [0]
        markers = []

        def mk(kind="expr"):
            counter[0] += 1
            m = "__m%d" % counter[0]
            markers.append(m)
            if kind == "member":
                return "%s(1)" % m
            if kind == "type":
                return "Vec<%s>" % m
            return rng.choice(["%s", "|v| %s(v)", "{ %s }", "{ let c = %s; move |v| c(v) }", "%s::<u8>", "(%s)(1)"]) % m

        inp = Input()
        for _ in range(rng.randint(1, 5)):
            b = Branch()
            b.name = "nm%d" % len(inp.branches) if rng.random() < 0.2 else None
            b.initial = mk()
            open_w = 0
            for _ in range(rng.randint(0, 8)):
                deferred = rng.random() < 0.25
                if deferred:
                    open_w = 0
                r = rng.random()
                if open_w and r < 0.2 and not deferred:
                    b.members.append(Member("UNWRAP", "<<<", [], False, False))
                    open_w -= 1
                    continue
                if r > 0.85:
                    nm = rng.choice(WRAPPERS)
                    b.members.append(Member(nm, OP[nm][1][0], [], deferred, True))
                    open_w += 1
                    continue
                name, spellings, cnt, kind, _ = rng.choice(OPS)
                if isinstance(cnt, tuple):
                    cnt = rng.choice(cnt)
                b.members.append(Member(name, rng.choice(spellings), [mk(kind) for _ in range(cnt)], deferred, False))
            inp.branches.append(b)
        handler = rng.choice([None, "map", "then", "and_then"])
        if handler:
            inp.handler = (handler, mk(), rng.randint(0, len(inp.branches)))
        text = inp.render()
        for cfg in range(8):
            if handler_ok(handler, cfg):
                rows.append(("k%d_%d" % (i, cfg), str(cfg), text, ",".join(markers)))
    return rows


# ------------------------------------------------------------------------------------------
# C16 (E1): option subsets and orders


def option_cases(rng, pools):
    g = Gen(rng, pools)
    eq_rows, total_rows = [], []
    opts = [("futures_crate_path", "::my::futures"), ("custom_joiner", "my_join!"), ("transpose_results", "false"), ("lazy_branches", "true")]
    bodies = ["a |> f, b ~=> g", "Some(1) ?> p, Some(2), Some(3) ~|> h ~|> k", "x"]
    gid = 0
    for body in bodies:
        for r in range(0, 5):
            for subset in itertools.combinations(opts, r):
                gid += 1
                for perm in itertools.permutations(subset):
                    text = "".join("%s(%s) " % kv for kv in perm) + body
                    for cfg in (2, 3, 6, 7) if any(k == "futures_crate_path" for k, _ in perm) else range(8):
                        eq_rows.append(("g%d" % gid, str(cfg), text))
                # duplicates of each option inside this subset, every position
                alt = {"futures_crate_path": "::other::futures", "custom_joiner": "other_join!", "transpose_results": "true", "lazy_branches": "false"}
                for (k, v) in opts:
                    base = [kv for kv in subset if kv[0] != k]
                    seqs = [base + [(k, v), (k, v)], base + [(k, v), (k, alt[k])], base + [(k, alt[k]), (k, alt[k])]]
                    for seq in seqs:
                      for perm in set(itertools.permutations(seq)):
                        text = "".join("%s(%s) " % kv for kv in perm) + body
                        total_rows.append(("o%d" % len(total_rows), str(rng.choice([2, 3, 6, 7])), "I:dup_option", text))
    return eq_rows, total_rows


# ------------------------------------------------------------------------------------------
# C20: determinism workload = valid + invalid inputs


def det_cases(rng, pools, tier, prefixes=()):
    g = Gen(rng, pools)
    rows = []
    # operands that are token-prefixes of other operands (as the other syntactic category): histories in which
    # `Map < K` was seen as an expression before `Map<K, V>` is needed as a type, and the like
    for i, (kind, text) in enumerate(prefixes):
        cfg = str(rng.randrange(8))
        if kind == "E":
            rows.append(("dp%d" % i, cfg, "x |> %s ~=> f" % text))
        else:
            rows.append(("dp%d" % i, cfg, "x =>[] %s |> f" % text))
    for i, t in enumerate(pools[2]):
        rows.append(("dt%d" % i, str(rng.randrange(8)), "x =>[] %s >. len()" % t))
        rows.append(("du%d" % i, str(rng.randrange(8)), "x <-> %s, %s, %s, %s" % (t, t, t, t)))
    for i, e in enumerate(pools[0]):
        rows.append(("de%d" % i, str(rng.randrange(8)), "x |> %s ?> %s" % (e, e)))
    n = 700 if tier == "quick" else 5000
    for i in range(n):
        handler = rng.choice([None, None, "map", "then", "and_then"])
        inp = g.input(rng.randint(1, 6), rng.choice([2, 6, 16]), handler, options=rng.random() < 0.3)
        text = inp.render()
        cfg = rng.randrange(8)
        rows.append(("d%d" % i, str(cfg), text))
        if i % 5 == 0:
            rows.append(("d%dx" % i, str(rng.randrange(8)), text + " <<< |>"))
    # what the *first* expansion of a kind was must not matter for the later ones: the history starts and ends with invocations
    # of every async kind that differ in their options (the second process expands the same inputs in reverse order, so its
    # first invocation of each kind is this process' last one; seeded change C20-m caches per-kind helper text)
    for cfg in (2, 3, 6, 7):
        rows.insert(0, ("dfirst%d" % cfg, str(cfg), "futures_crate_path(::first::futures) custom_joiner(first_join!) a |> f ~=> g, b ?? h"))
        rows.append(("dlast%d" % cfg, str(cfg), "futures_crate_path(::last::futures) custom_joiner(last_join!) a |> f ~=> g, b ?? h"))
    for cfg in (0, 1, 4, 5):
        rows.insert(0, ("dfirst%d" % cfg, str(cfg), "custom_joiner(first_join!) lazy_branches(true) a |> f ~=> g, b ?? h"))
        rows.append(("dlast%d" % cfg, str(cfg), "custom_joiner(last_join) lazy_branches(false) a |> f ~=> g, b ?? h"))
    # rejected inputs are invocations too: the diagnostics (all of them, in their order) must be reproducible — inputs
    # with several different mistakes at once: two or three different options each given twice, in every arrangement
    vals = {"custom_joiner": ["j!", "k!"], "lazy_branches": ["true", "false"], "transpose_results": ["true", "false"], "futures_crate_path": ["::f", "::g"]}
    k = 0
    for names in itertools.combinations(sorted(vals), 2):
        for rep in range(3):
            seq = [(nm, rng.choice(vals[nm])) for nm in names for _ in range(2)] + [(nm, rng.choice(vals[nm])) for nm in vals if nm not in names and rng.random() < 0.5]
            rng.shuffle(seq)
            rows.append(("dm%d" % k, str(2 | rng.randrange(2) | 4 * rng.randrange(2)), "".join("%s(%s) " % kv for kv in seq) + "a |> f, b"))
            k += 1
    for rep in range(8):
        seq = [(nm, rng.choice(vals[nm])) for nm in vals for _ in range(rng.choice([2, 2, 3]))]
        rng.shuffle(seq)
        rows.append(("dm%d" % k, str(2 | rng.randrange(2)), "".join("%s(%s) " % kv for kv in seq) + "a |> f"))
        k += 1
    # ... and two handlers plus a duplicated option, an empty branch plus an unbalanced `<<<`
    rows.append(("dm%d" % k, "1", "lazy_branches(true) lazy_branches(true) a |> f, map => g, map => h"))
    rows.append(("dm%d" % (k + 1), "0", "a |> f <<< , , b <<<"))
    return rows


def write_rows(path, rows):
    with open(path, "w") as f:
        for r in rows:
            f.write("\t".join(esc(x) for x in r) + "\n")
