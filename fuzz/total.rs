//! Coverage-guided totality / determinism monitor for the expander (site E1), driven by libFuzzer (+ASan).
//! The byte string is decoded into a join-DSL token stream (vocabulary mode) or taken as raw text; the real
//! parser + generator run on it under every Config; the oracle is the one of `lab total` (C15) plus "two
//! expansions of the same input are identical" (C20). A finding never aborts the process: it is written to
//! $FUZZ_FINDINGS/<signature hash>.txt (one example per signature) and fuzzing continues, so one defect does
//! not mask the others. The driver re-runs every finding through `lab total` before it counts.
#![no_main]
#![allow(dead_code)]
use libfuzzer_sys::fuzz_target;
use std::io::Write;

#[path = "@LABSRC@/main.rs"]
mod lab;

const GLUE: &str = "\u{1}";
const VOCAB: &[&str] = &[
    // operators
    "|>", "=>", "?>", "..", ">.", "->", "<|", "<=", "!>", "=>[]", ">@>", "?|>@", "?|>", "|n>", "?&!>", "^^>", "^@", "?^@", "?@", ">^>", "<->", "??",
    "~", ">>>", "<<<", ",", ",", ",", "~|>", "~=>", "~->", "~??", "|> >>>", "=> >>>", "?> >>>", "?? >>>", "<= >>>", "!> >>>", "?|> >>>", "?@ >>>", "?|>@ >>>", "?&!> >>>",
    "-> >>>", "^@ >>>", "<| >>>", "<<< <<<", ">>> <<<", "~ <<<", "~ >>>",
    // branch heads, options, handlers
    "let", "mut", "let a =", "let mut b =", "let (a, b) =", "let S { x } =", "let _ =", "let ref c =", "let a @ _ =", "=",
    "custom_joiner(j!)", "custom_joiner(jf)", "custom_joiner(|a, b| (a, b))", "custom_joiner()", "lazy_branches(true)", "lazy_branches(false)", "lazy_branches(maybe)",
    "transpose_results(true)", "transpose_results(false)", "futures_crate_path(::fut)", "futures_crate_path(fut::x)", "futures_crate_path()",
    "map =>", "then =>", "and_then =>", "map", "then", "and_then", "map =", "then = >",
    // operands
    "a", "f", "x", "Some(1)", "None::<u8>", "Ok::<_, ()>(2)", "Err::<u8, _>(3)", "vec![1, 2].into_iter()", "ready(1)", "|v| v", "|v: u32| -> u32 { v + 1 }", "|a, b| a + b",
    "move |v| v", "|| 1", "{ x }", "{ let y = 1; move |v| v + y }", "'l: { 1 }", "unsafe { f() }", "async { 1 }", "async move { a.await }", "Vec<u8>", "Vec<Vec<u8>>",
    "(Vec<_>, Vec<_>)", "HashMap<u8, Vec<u8>>", "1", "-1", "0", "1u8", "1.5", "\"s |> t\"", "'c'", "b'x'", "x as u8", "a + b", "a?", "a? > b", "(a, b)", "[1, 2]", "x.y", "x.0",
    "f(1)", "f::<u8>", "T::<U>::f", "<T as U>::f", "m!(a |> b)", "join!{ a |> b }", "if c { a } else { b }", "match x { _ => 1 }", "&x", "&mut x", "*p", "!b", "a..b", "..", "..=3",
    "a | b", "a || b", "a >> 1", "a > b", "a < b", "a = b", "a += 1", "return 1", "break", "x.await", "loop { }", "while c { }", "for i in x { }", "|v| v?", "|v| -> Option<u8> { v }",
    "to_string()", "unwrap()", "len", "0", "await", "iter().map(|v| v)", "r#type", "_", "self", "Self", "crate::f", "dyn T", "impl T", "fn(u8) -> u8", "&'a str", "[u8; 2]", "!",
    // raw punctuation and delimiters
    "__g!(", "__g!(", ")", "__g!(<T as U>::f)", "__g!(|v| v)", "__g!(-1)", "__g!([1, 2])", "__g!(!)", "__g!({ x })", "__g!(a?)",
    "(", ")", "{", "}", "[", "]", "::", ";", "#", "$", "?", "@", "&", "|", ">", "<", "-", "!", ".", "^", "n", ":", "+", "*", "/", "%", "'a", "=>[", "] ", "<-", GLUE, GLUE,
];

fn decode(data: &[u8]) -> String {
    let mut s = String::new();
    let mut glue = false;
    for b in data {
        let t = VOCAB[*b as usize % VOCAB.len()];
        if t == GLUE {
            glue = true;
            continue;
        }
        if !glue && !s.is_empty() {
            s.push(' ');
        }
        glue = false;
        s.push_str(t);
    }
    s
}

fn esc(s: &str) -> String {
    s.replace('\\', "\\\\").replace('\n', "\\n").replace('\t', "\\t").replace('\r', " ")
}

fn fnv(s: &str) -> u64 {
    let mut h: u64 = 0xcbf29ce484222325;
    for b in s.bytes() {
        h ^= b as u64;
        h = h.wrapping_mul(0x100000001b3);
    }
    h
}

/// signature: kind + message with everything quoted / numeric blanked out, first 60 chars
fn signature(kind: &str, msg: &str) -> String {
    let mut o = String::new();
    let mut in_tick = false;
    for c in msg.chars() {
        if c == '`' {
            in_tick = !in_tick;
            o.push('`');
            continue;
        }
        if in_tick || c.is_ascii_digit() {
            continue;
        }
        o.push(c);
        if o.len() >= 60 {
            break;
        }
    }
    format!("{}:{}", kind, o)
}

fn finding(kind: &str, msg: &str, cfg: u8, text: &str) {
    let dir = match std::env::var("FUZZ_FINDINGS") {
        Ok(d) => d,
        Err(_) => return,
    };
    let sig = signature(kind, msg);
    let path = format!("{}/{:016x}.txt", dir, fnv(&sig));
    if let Ok(old) = std::fs::read_to_string(&path) {
        // keep the shortest example per signature
        let old_len = old.split('\t').nth(3).map(|t| t.len()).unwrap_or(0);
        if old_len <= esc(text).len() + 1 {
            return;
        }
    } else if std::fs::read_dir(&dir).map(|d| d.count()).unwrap_or(0) >= 400 {
        return;
    }
    let tmp = format!("{}.{}.tmp", path, std::process::id());
    if let Ok(mut f) = std::fs::File::create(&tmp) {
        let _ = writeln!(f, "{}\t{}\t{}\t{}", cfg, kind, esc(&msg.chars().take(400).collect::<String>()), esc(text));
        let _ = std::fs::rename(&tmp, &path);
    }
}

static HOOK: std::sync::Once = std::sync::Once::new();

/// The expansion runs on one long-lived worker thread with a 1 GiB stack: syn's recursive-descent parsers use one stack
/// frame chain per nesting level (`<<<<<<…` as nested qualified paths, `((((…`), which overflows the default 8 MiB stack
/// under AddressSanitizer for a few hundred levels. Stack exhaustion by nesting depth is a limit of every syn-based
/// macro (and of rustc's own recursion limit), not a question the property asks; inputs are at most 600 bytes.
fn on_big_stack(data: Vec<u8>) {
    use std::sync::mpsc::{channel, Receiver, Sender};
    use std::sync::Mutex;
    static CHAN: Mutex<Option<(Sender<Vec<u8>>, Receiver<()>)>> = Mutex::new(None);
    let mut g = CHAN.lock().unwrap_or_else(|e| e.into_inner());
    if g.is_none() {
        let (tx, rx) = channel::<Vec<u8>>();
        let (dtx, drx) = channel::<()>();
        std::thread::Builder::new()
            .stack_size(1 << 30)
            .spawn(move || {
                while let Ok(d) = rx.recv() {
                    one_input(&d);
                    let _ = dtx.send(());
                }
            })
            .expect("worker thread");
        *g = Some((tx, drx));
    }
    let (tx, drx) = g.as_ref().unwrap();
    tx.send(data).expect("worker alive");
    drx.recv().expect("worker alive");
}

fuzz_target!(|data: &[u8]| {
    // libfuzzer-sys installs an aborting panic hook; the monitor classifies panics itself (catch_unwind in lab::expand)
    HOOK.call_once(|| std::panic::set_hook(Box::new(|_| {})));
    if data.len() < 2 {
        return;
    }
    on_big_stack(data.to_vec());
});

fn one_input(data: &[u8]) {
    let cfg = data[0] & 7;
    let text = if data[0] & 0x80 != 0 {
        match std::str::from_utf8(&data[1..]) {
            Ok(s) => s.to_string(),
            Err(_) => return,
        }
    } else {
        decode(&data[1..])
    };
    // only token streams are in the property's domain: text that does not lex never reaches a macro
    if text.parse::<proc_macro2::TokenStream>().is_err() {
        return;
    }
    let cfgs = cfg.to_string();
    match lab::expand(&text, &cfgs) {
        lab::Class::Panic(m) => finding("panic", &m, cfg, &text),
        lab::Class::BadOutput(m) => {
            if !m.starts_with("LEGACY-ASCRIPTION") {
                finding("badoutput", &m, cfg, &text)
            }
        }
        lab::Class::Reject(m, _) => {
            if m.trim().is_empty() {
                finding("emptymsg", "rejected with an empty message", cfg, &text)
            }
        }
        lab::Class::ConfigReject(_) => {}
        lab::Class::Ok(s) => {
            if let lab::Class::Ok(s2) = lab::expand(&text, &cfgs) {
                if s2 != s {
                    finding("nondet", "two expansions of the same input differ", cfg, &text)
                }
            } else {
                finding("nondet", "second expansion of the same input has another outcome class", cfg, &text)
            }
        }
    }
}
